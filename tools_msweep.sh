#!/bin/bash
# Full quick suite under several seeds from a copy of /verif against a scratch worktree of /repo (false-alarm hunting beside other work).
# usage: msweep.sh <copy> <repo> <seeds...>
C=$1; R=$2; shift 2
cd $C
for s in "$@"; do for id in C01 C02 C03 C04 C05 C06 C07 C08 C09 C10 C11 C12 C13 C14 C15 C16 C17; do echo "seed $s: $(VERIF_REPO=$R VERIF_SEED=$s ./check $id quick 2>&1 | grep -E '^\[C|^VIOLATION|^ERROR|quick seed' | head -3 | cut -c1-260 | tr '\n' ' ')"; done; done
echo DONE
