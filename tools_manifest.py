#!/usr/bin/env python3
"""Regenerates MANIFEST.json (kept as a script so that the manifest stays consistent)."""
import json
hooks=["09edb0e","a04e5eb","f254399","bbd02c1","a0d1070","92a1c3d"]
NOTE="Trusted: the cfg(mini_moka_verif) hooks in /repo (mock clock, read-only snapshot/walker/estimate accessors, component facades, switch points), the reference model and oracles in /verif/harness/src, proptest 1.11. Exploration only: nothing is claimed about inputs, histories or schedules that were not generated."
props={
 "C01":(["seq"],"reference-model PBT (proptest), safety direction","Every lookup result of generated histories on both caches is compared with a reference model: it must be nothing or the most recent, non-invalidated insert of that key. Held on all generated histories, incl. lookups while the key's own operations were still queued."),
 "C02":(["sched"],"PBT over generated thread schedules (cooperative scheduler at cfg-guarded switch points) with a per-key history oracle; exhaustive litmus enumeration up to 2 preemptions","Programs of 2-4 real threads whose schedule is a generated, shrinkable list of preemptions; every get must return nothing or a value whose insert was not superseded by a write that completed before the get began; per-writer order never observed backwards; after quiescence the cache holds nothing or a last value per key. Under uncontrolled real threads additionally: a value a reader saw replaced never comes back once the replacing insert has completed, and a key's only writer reads back nothing or its last value while admissions evict its entries."),
 "C03":(["seq"],"reference-model PBT, completeness direction + fits clause","Where capacity cannot bind (none, or >= the history's weight bound) every model-live entry must be shown by get/contains_key/iter after every step; for bounded caches every insert that fits in the physically remaining room must be retained and evict nothing (checked at quiescent points)."),
 "C04":(["seq"],"invariant PBT over physical residents","Sum of physical resident weights (snapshot hook) against max_capacity after every operation (unsync, with the growing-update allowance) and after sync() (concurrent); oversized fresh inserts never retained."),
 "C05":(["seq"],"deadline-invariant PBT with boundary-directed clock steps","No lookup may show a value at or after its own insert reading + ttl; clock steps are resolved against the model deadline (-1/0/+1 ns)."),
 "C06":(["seq"],"deadline-invariant PBT with boundary-directed clock steps","No lookup may show a key at or after (last insert/update/observed successful get) + tti; contains_key/iter never extend the model's idle timer."),
 "C07":(["seq"],"reference-model PBT around invalidations","Invalidated values never shown again (value identity) and, where capacity cannot bind, everything not targeted (incl. re-inserted keys) still shown."),
 "C08":(["seq","sketch"],"crash/panic oracle + structural walker PBT; component PBT on the sketch","Union generator with the structural walker after every step, debug assertions and overflow checks on; a panic raised inside the library or a dying worker process is a violation; parity-directed hash sequences on the sketch facade for arithmetic overflow."),
 "C09":(["seq"],"bounded-termination PBT on bursts","Single-thread bursts far beyond the write-queue size in both housekeeping regimes; retry budget through the switch-point callback, watchdog + replay for hangs, queues empty after sync()."),
 "C10":(["seq"],"counter-vs-physical-snapshot PBT","entry_count()/weighted_size() against the physical map (snapshot hook) after every op (unsync) / at every quiescent point (concurrent), plus the iteration cross-check."),
 "C11":(["seq"],"drop-tracking PBT","Instrumented key/value types with a per-case registry: no double drop, live objects == resident entries at quiescent points, expired entries released once maintenance ran, registry empty after dropping the cache (also with ops still queued)."),
 "C12":(["seq"],"predictive-model PBT (LRU victims; one model step per maintenance run on the concurrent cache) + eviction-amount invariant","A lock-step recency model predicts the exact resident set after every step - on the concurrent cache after every maintenance run, also for free-running histories (shortest LRU prefix for admissions and for excess after growth); any other victim set is reported. Independently of the model, for caches of any size: the weight evicted in a step never exceeds what the shortest LRU prefix explains."),
 "C13":(["seq"],"predictive-model PBT (TinyLFU decision from the implementation's own estimates, per maintenance run on the concurrent cache)","Before each newcomer the implementation's estimates are read through the hook; admit iff estimate(candidate) > sum of estimates of the shortest LRU prefix covering its weight; decision and untouched residents on rejection are compared."),
 "C14":(["seq","sketch"],"component PBT against an exact counter model (+ bounded-exhaustive tiny universes); cache-clause PBT","Sketch facade against an exact per-counter and per-hash model over capacities 0..2^20+1 with uniform, skewed and parity-directed hash sequences; estimates of the whole key universe read after every cache step: only get may change them, by at most one per call, and every get that was not dropped by a full read queue raises the estimate (lower bound over stretches without an aging step)."),
 "C15":(["seq"],"metamorphic PBT (h vs h' with extra observations)","Pairs of histories differing only by extra contains_key/iter calls must give identical results for all other lookups; on the concurrent cache the extra calls must leave queues, LRU order and estimates untouched."),
 "C16":(["seq"],"reference-model PBT on iteration","Every iteration compared with model and physical snapshot: no duplicates, nothing dead, nothing live missing."),
 "C17":(["cfg"],"PBT over builder call lists + differential histories between equivalent configurations","policy() round-trip, build panics iff a duration exceeds 1000 years (documented message), and equivalent configurations (initial_capacity, default weight 1, new(n) vs builder) behave identically on short histories."),
}
import sys
extra = json.load(open("/verif/tools_manifest_extra.json")) if __import__("os").path.exists("/verif/tools_manifest_extra.json") else {}
for k,v in extra.get("engines",{}).items():
    props[k]=(props[k][0]+[e for e in v if e not in props[k][0]],)+props[k][1:]
for k,v in extra.get("technique",{}).items():
    props[k]=(props[k][0],props[k][1]+"; "+v,props[k][2])
for k,v in extra.get("text",{}).items():
    props[k]=(props[k][0],props[k][1],props[k][2]+" "+v)
checks=[]
for pid,(engs,tech,text) in props.items():
    checks.append(dict(property_id=pid,quick_cmd=f"./check {pid} quick",thorough_cmd=f"./check {pid} thorough",evidence_file=f"/verif/evidence/{pid}.json",
      replay_cmd_template="./target/debug/mmv replay {path}",engine="+".join(engs),
      level_claimed=dict(category="exploration",text=text,design_ref=f"DESIGN.md §4 {pid}"),
      level_note=NOTE,technique=tech))
allengs={}
for pid,(engs,_,_) in props.items():
    for e in engs: allengs.setdefault(e,[]).append(pid)
desc={"seq":("harness/src/exec.rs","sequential model-based property testing (proptest strategies -> Case -> interpreter + reference model + monitors), 16 worker processes"),
 "sketch":("harness/src/comp_sketch.rs","component PBT on the frequency sketch facade against an exact counter model; bounded-exhaustive sub-run"),
 "cfg":("harness/src/cfg_engine.rs","PBT over builder call combinations with differential histories"),
 "deque":("harness/src/comp_deque.rs","component PBT on the intrusive list facade against VecDeque with drop tracking"),
 "sched":("harness/src/sched.rs","PBT where the schedule of 2-4 real threads is a generated input, serialised at cfg-guarded switch points; exhaustive litmus enumeration"),
 "stress":("harness/src/stress.rs","uncontrolled real threads with schedule-independent oracles"),
 "fuzz":("fuzz/","cargo-fuzz/libFuzzer targets decoding bytes into the same Case values and running the same interpreter (thorough tier)")}
m=dict(version=1,
 setup_cmd="cd /verif/harness && CARGO_NET_OFFLINE=true CARGO_TARGET_DIR=/verif/target RUSTFLAGS='--cfg mini_moka_verif' cargo build --offline",
 hooks=dict(guard="mini_moka_verif",enable="RUSTFLAGS='--cfg mini_moka_verif' (set by ./check and /verif/.cargo/config.toml)",
   baseline_off_cmd="cd /repo && cargo test --workspace --no-fail-fast --offline",source_commits=hooks,add_only=True),
 engines=[dict(name=e,path=desc[e][0],serves_properties=ps,kind_free_text=desc[e][1]) for e,ps in allengs.items()],
 checks=checks,
 notes="All checks are generated-input search (proptest / libFuzzer) against explicit oracles; see DESIGN.md. Known findings: known_findings.json; regression replays: regress/. Exit 2 = could not decide (build failure, watchdog, crash outside the property).",
 not_applicable=extra.get("not_applicable",[]))
json.dump(m,open("/verif/MANIFEST.json","w"),indent=1)
print("claimed",len(checks),"not_applicable",[x["property_id"] for x in m["not_applicable"]])
