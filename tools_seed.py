#!/usr/bin/env python3
"""Confirm a seeded change (tests still pass, demo fails with it / passes without it) in its
scratch worktree, then run /verif's checks against it in /repo and record the outcome under
/verif/seeded/<id>-<variant>/.

usage: tools_seed.py <ID> <A|B> [--checks C05,C01] [--tier quick|thorough] [--skip-verify]
"""
import json, os, re, shutil, subprocess, sys, time

def sh(cmd, cwd=None, env=None, timeout=3600):
    e = dict(os.environ)
    if env: e.update(env)
    p = subprocess.run(cmd, shell=True, cwd=cwd, env=e, stdout=subprocess.PIPE, stderr=subprocess.STDOUT, text=True, timeout=timeout)
    return p.returncode, p.stdout

def place_demo(wt, demo_path):
    """Returns (list of files to restore/delete, test filter or None)."""
    src = open(demo_path).read()
    head = "\n".join(src.splitlines()[:40])
    m = re.search(r"(tests/[\w/]+\.rs)", head)
    m2 = re.search(r"(src/[\w/]+\.rs)", head)
    names = re.findall(r"fn\s+(\w+)\s*\(\s*\)", src)
    if m2 and (not m or head.index(m2.group(1)) < head.index(m.group(1))):
        target = os.path.join(wt, m2.group(1))
        body = open(target).read()
        idx = body.rstrip().rfind("}")
        self_contained = any(l.startswith("mod ") or l.startswith("#[cfg(test)]") for l in src.splitlines())
        if re.search(r"inside|before the final", head):
            self_contained = False
        if self_contained:
            new = body + "\n" + src + "\n"
        else:
            new = body[:idx] + "\n" + src + "\n}\n"
        open(target, "w").write(new)
        return ("src", target, names)
    elif m:
        target = os.path.join(wt, m.group(1))
        os.makedirs(os.path.dirname(target), exist_ok=True)
        shutil.copy(demo_path, target)
        return ("tests", target, names)
    raise SystemExit("cannot find where the demo goes: " + demo_path)

def run_demo(wt, kind, target, names):
    env = {"CARGO_TARGET_DIR": os.path.join(wt, "target"), "CARGO_NET_OFFLINE": "true"}
    if "mini_moka_verif" in open(target).read() and "cfg mini_moka_verif" in open(target).read():
        env["RUSTFLAGS"] = "--cfg mini_moka_verif"
    if kind == "src":
        flt = " ".join(names[:1]) if names else ""
        # run every test fn of the demo
        ok = True; out_all = ""
        for n in (names or [""]):
            rc, out = sh(f"cargo test --offline --lib {n} -- --test-threads 1", cwd=wt, env=env)
            out_all += out[-1500:]
            ran = re.search(r"test result: \w+\. (\d+) passed; (\d+) failed", out)
            if ran and int(ran.group(1)) + int(ran.group(2)) == 0:
                continue  # ignored / filtered out: says nothing
            if rc != 0 or not ran or int(ran.group(2)) > 0: ok = False
        return ok, out_all
    else:
        name = os.path.splitext(os.path.basename(target))[0]
        rc, out = sh(f"cargo test --offline --test {name} -- --test-threads 1", cwd=wt, env=env)
        return rc == 0, out[-3000:]

def main():
    pid, var = sys.argv[1], sys.argv[2]
    checks = [pid]; tier = "quick"; skip = "--skip-verify" in sys.argv
    if "--checks" in sys.argv: checks = sys.argv[sys.argv.index("--checks") + 1].split(",")
    if "--tier" in sys.argv: tier = sys.argv[sys.argv.index("--tier") + 1]
    root = "/tmp/seed"; suffix = ""
    if "--root" in sys.argv: root = sys.argv[sys.argv.index("--root") + 1]
    if "--suffix" in sys.argv: suffix = sys.argv[sys.argv.index("--suffix") + 1]
    wt = f"{root}/{pid}"; out = f"{wt}/OUT"
    diff = f"{out}/{var}.diff"; demo = f"{out}/{var}_demo.rs"; md = f"{out}/{var}.md"
    dest = f"/verif/seeded/{pid}-{var}{suffix}"
    if not os.path.exists(diff):
        # the scratch worktree is gone: re-run detection from the kept patch
        diff = f"{dest}/patch.diff"; demo = f"{dest}/demo.rs"; md = f"{dest}/description.md"; skip = True
    meta = {"property": pid, "variant": var, "confirmed": {}, "checks": {}}
    if os.path.exists(f"{dest}/meta.json"):
        meta = json.load(open(f"{dest}/meta.json"))
    env = {"CARGO_TARGET_DIR": os.path.join(wt, "target"), "CARGO_NET_OFFLINE": "true"}
    if not skip:
        sh("git checkout -q -- . && git clean -fdq -e OUT -e PROPERTY.txt -e target -e Cargo.lock", cwd=wt)
        # 1. demo passes on the clean tree
        kind, target, names = place_demo(wt, demo)
        ok_clean, o1 = run_demo(wt, kind, target, names)
        sh("git checkout -q -- . && git clean -fdq -e OUT -e PROPERTY.txt -e target -e Cargo.lock", cwd=wt)
        # 2. with the change: compiles (both cfgs), the existing suite passes, the demo fails
        rc, o = sh(f"git apply {diff}", cwd=wt)
        if rc != 0: raise SystemExit("patch does not apply: " + o)
        rc_t, o_t = sh("cargo test --offline 2>&1 | grep -E '^test result|FAILED|error' ", cwd=wt, env=env)
        passed = re.findall(r"test result: ok\. (\d+) passed; 0 failed", o_t)
        suite_ok = "FAILED" not in o_t and "error" not in o_t and passed and int(passed[0]) == 35
        rc_b, o_b = sh("cargo build --offline --lib 2>&1 | tail -3", cwd=wt, env={**env, "RUSTFLAGS": "--cfg mini_moka_verif"})
        hooks_ok = "error" not in o_b
        kind, target, names = place_demo(wt, demo)
        ok_mut, o2 = run_demo(wt, kind, target, names)
        sh("git checkout -q -- . && git clean -fdq -e OUT -e PROPERTY.txt -e target -e Cargo.lock", cwd=wt)
        meta["confirmed"] = {"demo_passes_without_change": ok_clean is True, "existing_suite_passes_with_change": bool(suite_ok),
                             "builds_with_hooks_on": hooks_ok, "demo_fails_with_change": ok_mut is False,
                             "ran": ["git apply <patch>", "cargo test --offline (35 unit tests + doctests)", "RUSTFLAGS='--cfg mini_moka_verif' cargo build --offline --lib", "demo placed as its header says; cargo test --offline <demo test>"]}
        print("confirm:", meta["confirmed"])
        if ok_mut is not False:
            print("--- demo output with change ---\n", o2[-1200:])
        if ok_clean is not True:
            print("--- demo output clean ---\n", o1[-1200:])
    if "--no-checks" in sys.argv:
        # confirmation only (no contention for /repo): the checks are run by a later call with --skip-verify
        os.makedirs(dest, exist_ok=True)
        shutil.copy(diff, f"{dest}/patch.diff"); shutil.copy(demo, f"{dest}/demo.rs")
        if os.path.exists(md): shutil.copy(md, f"{dest}/description.md")
        meta["needs_to_manifest"] = open(md).read()[:1500] if os.path.exists(md) else ""
        json.dump(meta, open(f"{dest}/meta.json", "w"), indent=1)
        return
    # 3. our checks against it, in /repo
    # SEED_REPO / SEED_CHECK: run the checks from a copy of /verif against a scratch worktree
    # (VERIF_REPO is passed on to the copy's check script) while /repo itself is busy
    REPO = os.environ.get("SEED_REPO", "/repo"); CHECK = os.environ.get("SEED_CHECK", "/verif/check")
    cenv = {"VERIF_REPO": REPO} if REPO != "/repo" else None
    rc, o = sh("git status --porcelain", cwd=REPO)
    if o.strip(): raise SystemExit(REPO + " is not clean")
    rc, o = sh(f"git apply {diff}", cwd=REPO)
    if rc != 0: raise SystemExit("patch does not apply to " + REPO + ": " + o)
    try:
        for c in checks:
            t0 = time.time()
            rc, o = sh(f"{CHECK} {c} {tier}", cwd=os.path.dirname(CHECK), env=cenv, timeout=7200)
            lines = [l for l in o.splitlines() if l.startswith("VIOLATION") or l.startswith("ERROR") or l.startswith("[C")]
            meta["checks"][f"{c}:{tier}"] = {"exit": rc, "wall_s": round(time.time() - t0, 1), "first_lines": lines[:3]}
            print(f"check {c} {tier}: exit {rc}  {lines[:2]}")
    finally:
        sh("git checkout -q -- .", cwd=REPO)
        sh(f"rm -f {os.path.dirname(CHECK)}/replays/*.json")
    os.makedirs(dest, exist_ok=True)
    if os.path.abspath(diff) != os.path.abspath(f"{dest}/patch.diff"):
        shutil.copy(diff, f"{dest}/patch.diff"); shutil.copy(demo, f"{dest}/demo.rs")
        if os.path.exists(md): shutil.copy(md, f"{dest}/description.md")
    meta["needs_to_manifest"] = open(md).read()[:1500] if os.path.exists(md) else ""
    meta["detected_by"] = sorted(k for k, v in meta["checks"].items() if v["exit"] == 1)
    json.dump(meta, open(f"{dest}/meta.json", "w"), indent=1)

main()
