#![no_main]
use libfuzzer_sys::fuzz_target;

fuzz_target!(|data: &[u8]| {
    mmv::fuzz_entry::seq(data);
});
