//! COMP engine for the intrusive list (C08): operation sequences on the list
//! facade against a `VecDeque` model, with drop-tracked elements and the list's
//! own cursor iteration interleaved with unlink / move operations.

use crate::engine::{classify_panic, config, rng_for, take_panic, Found, WorkerArgs, WorkerResult};
use crate::exec::Violation;
use crate::track::{Reg, TV};
use mini_moka::verif::Deq;
use proptest::prelude::*;
use proptest::test_runner::{TestCaseError, TestError, TestRunner};
use serde::{Deserialize, Serialize};
use std::cell::RefCell;
use std::collections::{BTreeMap, BTreeSet, VecDeque};
use std::panic::{catch_unwind, AssertUnwindSafe};

#[derive(Clone, Debug, PartialEq, Eq, Hash, Serialize, Deserialize)]
pub enum DOp {
    Push,
    /// position (scaled into the current length) of the node to move
    MoveToBack(u16),
    MoveFrontToBack,
    Unlink(u16),
    PopFront,
    CursorNext,
    /// follow the raw `next` links from the front (as the admission code does)
    WalkLinks,
    /// ask about a handle that was already removed
    ContainsDead,
}

#[derive(Clone, Debug, PartialEq, Eq, Hash, Serialize, Deserialize)]
pub struct DequeCase {
    pub ops: Vec<DOp>,
}

impl DequeCase {
    pub fn hash64(&self) -> u64 {
        use std::hash::{Hash, Hasher};
        let mut h = std::collections::hash_map::DefaultHasher::new();
        self.hash(&mut h);
        h.finish()
    }
}

#[derive(Clone, Copy, Debug, PartialEq)]
enum Cur {
    None,
    At(u64),
    Done,
}

#[derive(Default, Clone, Debug)]
pub struct DStats {
    pub unlink_head: u32,
    pub unlink_tail: u32,
    pub unlink_middle: u32,
    pub cursor_adjusted: u32,
    pub max_len: usize,
}

macro_rules! v8 {
    ($step:expr, $($arg:tt)*) => {
        return Err(Violation { prop: "C08", step: $step, msg: format!($($arg)*) })
    };
}

pub fn run_deque_case(case: &DequeCase) -> (Option<Violation>, DStats) {
    let mut st = DStats::default();
    let r = run_inner(case, &mut st);
    (r.err(), st)
}

fn run_inner(case: &DequeCase, st: &mut DStats) -> Result<(), Violation> {
    let reg = Reg::new();
    let mut dq: Deq<TV> = Deq::new();
    // model: (handle, element sequence number) front -> back
    let mut model: VecDeque<(u64, u32)> = VecDeque::new();
    let mut cur = Cur::None;
    let mut dead: Vec<u64> = Vec::new();
    let mut next_seq = 0u32;

    // the list advances its cursor before a node at the cursor is unlinked or moved
    fn advance(model: &VecDeque<(u64, u32)>, cur: &mut Cur) {
        *cur = match *cur {
            Cur::None => Cur::None,
            Cur::Done => Cur::None,
            Cur::At(h) => {
                let i = model.iter().position(|x| x.0 == h).expect("cursor handle in model");
                match model.get(i + 1) {
                    Some(n) => Cur::At(n.0),
                    None => Cur::Done,
                }
            }
        };
    }

    for (step, op) in case.ops.iter().enumerate() {
        match op {
            DOp::Push => {
                let h = dq.push_back(TV::new(next_seq, 0, &reg));
                model.push_back((h, next_seq));
                next_seq += 1;
            }
            DOp::MoveToBack(p) => {
                if model.is_empty() {
                    continue;
                }
                let i = (*p as usize * model.len()) >> 16;
                let (h, s) = model[i];
                if i + 1 != model.len() {
                    if cur == Cur::At(h) {
                        advance(&model, &mut cur);
                        st.cursor_adjusted += 1;
                    }
                    model.remove(i);
                    model.push_back((h, s));
                }
                if !dq.move_to_back(h) {
                    v8!(step, "move_to_back refused live handle {h}: contains() is false for a node that is in the list");
                }
            }
            DOp::MoveFrontToBack => {
                if let Some(&(h, s)) = model.front() {
                    if model.len() > 1 {
                        if cur == Cur::At(h) {
                            advance(&model, &mut cur);
                            st.cursor_adjusted += 1;
                        }
                        model.pop_front();
                        model.push_back((h, s));
                    }
                }
                dq.move_front_to_back();
            }
            DOp::Unlink(p) => {
                if model.is_empty() {
                    continue;
                }
                let i = (*p as usize * model.len()) >> 16;
                let (h, _s) = model[i];
                if i == 0 {
                    st.unlink_head += 1;
                } else if i + 1 == model.len() {
                    st.unlink_tail += 1;
                } else {
                    st.unlink_middle += 1;
                }
                if cur == Cur::At(h) {
                    advance(&model, &mut cur);
                    st.cursor_adjusted += 1;
                }
                model.remove(i);
                let before = reg.live_vals();
                if !dq.unlink_and_drop(h) {
                    v8!(step, "unlink_and_drop refused live handle {h}: contains() is false for a node that is in the list");
                }
                if reg.live_vals() + 1 != before {
                    v8!(step, "unlink_and_drop of one node changed the number of live elements from {before} to {}", reg.live_vals());
                }
                dead.push(h);
            }
            DOp::PopFront => {
                let want = model.front().copied();
                if let Some((h, _)) = want {
                    if cur == Cur::At(h) {
                        advance(&model, &mut cur);
                        st.cursor_adjusted += 1;
                    }
                    model.pop_front();
                    dead.push(h);
                }
                let got = dq.pop_front().map(|(h, e)| (h, e.seq));
                if got != want {
                    v8!(step, "pop_front returned {got:?}, expected {want:?}");
                }
            }
            DOp::CursorNext => {
                if cur == Cur::None {
                    if let Some(f) = model.front() {
                        cur = Cur::At(f.0);
                    }
                }
                let want = match cur {
                    Cur::At(h) => model.iter().find(|x| x.0 == h).map(|x| x.1),
                    _ => None,
                };
                advance(&model, &mut cur);
                let got = dq.cursor_next().map(|e| e.seq);
                if got != want {
                    v8!(step, "cursor iteration yielded {got:?}, expected {want:?} (list {:?})", model.iter().map(|x| x.1).collect::<Vec<_>>());
                }
            }
            DOp::WalkLinks => {
                let mut order = Vec::new();
                let mut h = dq.front_handle();
                while let Some(x) = h {
                    order.push(x);
                    if order.len() > model.len() + 1 {
                        v8!(step, "following next links from the front does not terminate within len+1 steps");
                    }
                    h = dq.next_handle_of(x);
                }
                let want: Vec<u64> = model.iter().map(|x| x.0).collect();
                if order != want {
                    v8!(step, "next links give order {order:?}, expected {want:?}");
                }
            }
            DOp::ContainsDead => {
                if let Some(h) = dead.last() {
                    if dq.contains(*h) {
                        v8!(step, "contains() is true for removed handle {h}");
                    }
                }
            }
        }
        st.max_len = st.max_len.max(model.len());

        // after every step: structure, order, length, membership, front element
        let order = match dq.walk() {
            Ok(o) => o,
            Err(e) => v8!(step, "structural walk failed after {op:?}: {e}"),
        };
        let want: Vec<u64> = model.iter().map(|x| x.0).collect();
        if order != want {
            v8!(step, "after {op:?} the list order is {order:?}, expected {want:?}");
        }
        if dq.len() != model.len() {
            v8!(step, "after {op:?} len() = {} but {} nodes are linked", dq.len(), model.len());
        }
        if dq.peek_front().map(|e| e.seq) != model.front().map(|x| x.1) {
            v8!(step, "peek_front disagrees with the model after {op:?}");
        }
        for (h, s) in model.iter() {
            if !dq.contains(*h) {
                v8!(step, "contains() is false for linked node {h} after {op:?}");
            }
            if dq.get(*h).map(|e| e.seq) != Some(*s) {
                v8!(step, "node {h} holds a different element after {op:?}");
            }
        }
        if reg.live_vals() != model.len() {
            v8!(step, "{} elements are alive but the list holds {}", reg.live_vals(), model.len());
        }
        if reg.double_drop() {
            v8!(step, "an element was dropped twice");
        }
    }
    drop(dq);
    if reg.live_vals() != 0 {
        v8!(case.ops.len(), "dropping the list left {} elements alive (leak)", reg.live_vals());
    }
    if reg.double_drop() {
        v8!(case.ops.len(), "dropping the list dropped an element twice");
    }
    Ok(())
}

fn dop() -> BoxedStrategy<DOp> {
    prop_oneof![
        10 => Just(DOp::Push),
        6 => any::<u16>().prop_map(DOp::MoveToBack),
        2 => Just(DOp::MoveFrontToBack),
        6 => any::<u16>().prop_map(DOp::Unlink),
        2 => Just(DOp::PopFront),
        7 => Just(DOp::CursorNext),
        1 => Just(DOp::WalkLinks),
        1 => Just(DOp::ContainsDead),
    ]
    .boxed()
}

pub fn deque_strategy(thorough: bool) -> BoxedStrategy<DequeCase> {
    proptest::collection::vec(dop(), 0..if thorough { 400 } else { 80 }).prop_map(|ops| DequeCase { ops }).boxed()
}

pub const RULE: &str = "operation sequences (push_back, move_to_back, move_front_to_back, unlink_and_drop, pop_front, cursor iteration, raw next-link walks) on the intrusive-list facade with drop-tracked elements, against a VecDeque + cursor model, structural walk after every step; non-trivial = the sequence unlinked a head, a tail and a middle node at least once each";

pub fn nontrivial(st: &DStats) -> bool {
    st.unlink_head > 0 && st.unlink_tail > 0 && st.unlink_middle > 0
}

pub fn deque_worker(a: &WorkerArgs) -> WorkerResult {
    let t0 = std::time::Instant::now();
    let strategy = deque_strategy(a.thorough);
    let mut runner = TestRunner::new_with_rng(config(a.cases), rng_for(a.seed, "deque", a.idx));
    struct Acc {
        evaluations: u64,
        hashes: BTreeSet<u64>,
        classes: BTreeMap<String, u64>,
        samples: Vec<DequeCase>,
        failed: bool,
    }
    let acc = RefCell::new(Acc { evaluations: 0, hashes: BTreeSet::new(), classes: BTreeMap::new(), samples: vec![], failed: false });
    let inflight = a.dir.join(format!("worker-{}.inflight.json", a.idx));
    let run_one = |case: &DequeCase| -> (Option<Violation>, DStats) {
        match catch_unwind(AssertUnwindSafe(|| run_deque_case(case))) {
            Ok(x) => x,
            Err(_) => {
                let (msg, loc) = take_panic();
                (Some(classify_panic(&msg, &loc)), DStats::default())
            }
        }
    };
    let mut res = WorkerResult::default();
    let result = runner.run(&strategy, |case| {
        if crate::budget::exhausted() && !acc.borrow().failed {
            crate::budget::skip();
            return Ok(());
        }
        let counting = !acc.borrow().failed;
        if counting {
            let _ = std::fs::write(&inflight, serde_json::to_vec(&case).unwrap());
        }
        let (v, st) = run_one(&case);
        let mut acc = acc.borrow_mut();
        if counting {
            acc.evaluations += 1;
            let mut cl = |k: &str, b: bool| {
                if b {
                    *acc.classes.entry(k.to_string()).or_insert(0) += 1;
                }
            };
            cl("cases_with_head_tail_middle_unlinks", nontrivial(&st));
            cl("cases_with_cursor_adjusted_by_unlink_or_move", st.cursor_adjusted > 0);
            cl("cases_with_len_ge_5", st.max_len >= 5);
            if nontrivial(&st) && v.is_none() && acc.hashes.insert(case.hash64()) && acc.samples.len() < 2 {
                acc.samples.push(case.clone());
            }
        }
        match v {
            None => Ok(()),
            Some(v) if v.prop == "HARNESS" => {
                acc.failed = true;
                Err(TestCaseError::fail(format!("HARNESS {}", v.msg)))
            }
            Some(v) => {
                acc.failed = true;
                Err(TestCaseError::fail(v.msg))
            }
        }
    });
    let _ = std::fs::remove_file(&inflight);
    match result {
        Ok(()) => {}
        Err(TestError::Fail(reason, case)) => {
            if reason.message().starts_with("HARNESS") {
                res.error = Some(reason.message().to_string());
            } else {
                let (v, _) = run_one(&case);
                let msg = v.map(|v| format!("[C08 at list step {}] {}", v.step, v.msg)).unwrap_or_else(|| "did not reproduce".into());
                res.violation = Some(Found { property: "C08".into(), message: msg, engine: "deque".into(), case: serde_json::to_value(&case).unwrap(), trace: vec![], avoid: vec![] });
            }
        }
        Err(TestError::Abort(r)) => res.error = Some(format!("proptest aborted: {r}")),
    }
    let acc = acc.into_inner();
    res.evaluations = acc.evaluations;
    res.nontrivial_hashes = acc.hashes.iter().copied().collect();
    res.classes = acc.classes;
    for c in &acc.samples {
        res.samples.push(serde_json::to_value(c).unwrap());
    }
    res.wall_s = t0.elapsed().as_secs_f64();
    res
}

pub fn replay(found: &Found) -> Option<Violation> {
    let case: DequeCase = serde_json::from_value(found.case.clone()).expect("deque case");
    match catch_unwind(AssertUnwindSafe(|| run_deque_case(&case))) {
        Ok((v, _)) => v,
        Err(_) => {
            let (msg, loc) = take_panic();
            Some(classify_panic(&msg, &loc))
        }
    }
}
