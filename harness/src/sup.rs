//! Supervisor: replay tier, worker processes, aggregation, evidence, exit code.

use crate::engine::{Found, WorkerResult};
use serde::{Deserialize, Serialize};
use std::collections::{BTreeMap, BTreeSet};
use std::path::{Path, PathBuf};
use std::process::{Child, Command, Stdio};
use std::time::{Duration, Instant};

/// Root of the verification tree: `/verif`, or `$VERIF_ROOT` when a snapshot of it
/// is run elsewhere (`vp run`).
pub fn verif_root() -> String {
    std::env::var("VERIF_ROOT").unwrap_or_else(|_| "/verif".to_string())
}

#[derive(Clone, Debug, Serialize, Deserialize)]
pub struct KnownFinding {
    pub tag: String,
    pub properties: Vec<String>,
    /// "open" or "fixed"
    pub status: String,
    #[serde(default)]
    pub commit: Option<String>,
    /// substring(s) that identify this finding in a violation message
    #[serde(default)]
    pub signature: Vec<String>,
    #[serde(default)]
    pub replay: Option<String>,
    /// all committed replay files of this finding (relative to the verification root)
    #[serde(default)]
    pub replays: Vec<String>,
    pub what: String,
}

pub fn load_known() -> Vec<KnownFinding> {
    let p = Path::new(&verif_root()).join("known_findings.json");
    match std::fs::read(&p) {
        Ok(b) => serde_json::from_slice(&b).expect("known_findings.json must parse"),
        Err(_) => vec![],
    }
}

#[derive(Clone, Debug)]
pub struct EnginePlan {
    pub engine: &'static str,
    pub workers: u64,
    pub cases_per_worker: u32,
    pub timeout_s: u64,
}

pub fn plan(prop: &str, thorough: bool) -> Vec<EnginePlan> {
    let mut v = Vec::new();
    // C09 is about termination: a short watchdog (normal runs take seconds), then replay
    let wd = if prop == "C09" { if thorough { 400 } else { 90 } } else if thorough { 1500 } else { 400 };
    let seq = |q: u32, t: u32| EnginePlan { engine: "seq", workers: 16, cases_per_worker: if thorough { t } else { q }, timeout_s: wd };
    match prop {
        "C01" | "C05" | "C06" | "C07" | "C16" => v.push(seq(6000, 20000)),
        "C03" => v.push(seq(10000, 30000)),
        "C04" | "C10" | "C11" => v.push(seq(6000, 20000)),
        "C08" => v.push(seq(3000, 10000)),
        "C09" => v.push(seq(300, 600)),
        "C12" | "C13" => v.push(seq(6000, 20000)),
        "C14" => v.push(seq(2500, 8000)),
        "C15" => v.push(seq(5000, 15000)),
        _ => {}
    }
    for e in crate::extra_engines(prop, thorough) {
        v.push(e);
    }
    v
}

pub struct RunArgs {
    pub prop: String,
    pub thorough: bool,
    pub seed: u64,
}

struct Merged {
    engine: String,
    evaluations: u64,
    hashes: BTreeSet<u64>,
    classes: BTreeMap<String, u64>,
    samples: Vec<serde_json::Value>,
    foreign: BTreeMap<String, u64>,
    aborted: u64,
    excluded: BTreeMap<String, u64>,
    violations: Vec<Found>,
    errors: Vec<String>,
    exhaustive: Option<bool>,
    rule: String,
}

fn run_dir(prop: &str, thorough: bool) -> PathBuf {
    let d = Path::new(&verif_root()).join("target").join("run").join(format!("{}-{}", prop, if thorough { "thorough" } else { "quick" }));
    let _ = std::fs::remove_dir_all(&d);
    std::fs::create_dir_all(&d).expect("create run dir");
    d
}

fn save_replay(prop: &str, f: &Found) -> PathBuf {
    let dir = Path::new(&verif_root()).join("replays");
    std::fs::create_dir_all(&dir).ok();
    let body = serde_json::to_vec_pretty(f).unwrap();
    let mut h = std::collections::hash_map::DefaultHasher::new();
    use std::hash::{Hash, Hasher};
    f.case.to_string().hash(&mut h);
    f.engine.hash(&mut h);
    let p = dir.join(format!("{}-{:016x}.json", prop, h.finish()));
    std::fs::write(&p, body).expect("write replay");
    p
}

fn matches_known<'a>(known: &'a [KnownFinding], prop: &str, msg: &str) -> Option<&'a KnownFinding> {
    known.iter().find(|k| k.status == "open" && k.properties.iter().any(|p| p == prop) && !k.signature.is_empty() && k.signature.iter().all(|s| msg.contains(s.as_str())))
}

pub fn run(a: &RunArgs) -> i32 {
    let t0 = Instant::now();
    let known = load_known();
    let open: Vec<String> = known.iter().filter(|k| k.status == "open").map(|k| k.tag.clone()).collect();
    let dir = run_dir(&a.prop, a.thorough);
    let exe = std::env::current_exe().expect("current exe");
    let mut exit = 0;
    let mut violations_total = 0i64;
    let mut known_lines: BTreeSet<String> = BTreeSet::new();
    let mut errors: Vec<String> = Vec::new();

    // ---- replay tier: committed regression cases and known findings ----------
    let mut replayed = 0u64;
    let regress = Path::new(&verif_root()).join("regress");
    let mut files: Vec<PathBuf> = std::fs::read_dir(&regress).map(|rd| rd.filter_map(|e| e.ok().map(|e| e.path())).filter(|p| p.extension().map_or(false, |x| x == "json")).collect()).unwrap_or_default();
    files.sort();
    for f in files {
        let Ok(bytes) = std::fs::read(&f) else { continue };
        let Ok(found) = serde_json::from_slice::<Found>(&bytes) else {
            errors.push(format!("unreadable regression file {}", f.display()));
            continue;
        };
        if found.property != a.prop {
            continue;
        }
        replayed += 1;
        let out = Command::new(&exe).arg("replay").arg(&f).arg("--quiet").stdout(Stdio::piped()).stderr(Stdio::piped()).output();
        match out {
            Ok(o) => {
                let code = o.status.code();
                let text = String::from_utf8_lossy(&o.stdout).to_string();
                if code == Some(0) {
                    continue;
                }
                let failing = code == Some(1) || code.is_none();
                if failing {
                    let msg = if code.is_none() { format!("process died with {:?} replaying {}", o.status, f.display()) } else { text.clone() };
                    let rel = f.strip_prefix(verif_root()).map(|p| p.to_string_lossy().to_string()).unwrap_or_default();
                    if let Some(k) = known.iter().find(|k| k.status == "open" && (k.replay.as_deref() == Some(rel.as_str()) || k.replays.iter().any(|r| r == &rel))) {
                        known_lines.insert(format!("KNOWN-FINDING: property={} {} [{}]", a.prop, k.what, k.tag));
                    } else if let Some(k) = matches_known(&known, &a.prop, &msg) {
                        known_lines.insert(format!("KNOWN-FINDING: property={} {} [{}]", a.prop, k.what, k.tag));
                    } else {
                        println!("{}", msg.trim_end());
                        println!("VIOLATION property={} replay={}", a.prop, f.display());
                        violations_total += 1;
                        exit = 1;
                    }
                } else {
                    errors.push(format!("replay of {} exited with {:?}", f.display(), code));
                }
            }
            Err(e) => errors.push(format!("cannot run replay: {e}")),
        }
    }

    // ---- generated search -------------------------------------------------------
    let plans = plan(&a.prop, a.thorough);
    let mut merged: Vec<Merged> = Vec::new();
    for pl in &plans {
        if pl.engine == "fuzz" {
            merged.push(run_fuzz(a, pl, &dir));
            continue;
        }
        let edir = dir.join(pl.engine);
        std::fs::create_dir_all(&edir).ok();
        let mut children: Vec<(u64, Child)> = Vec::new();
        for i in 0..pl.workers {
            let child = Command::new(&exe)
                .arg("worker")
                .arg("--engine").arg(pl.engine)
                .arg("--prop").arg(&a.prop)
                .arg("--tier").arg(if a.thorough { "thorough" } else { "quick" })
                .arg("--seed").arg(a.seed.to_string())
                .arg("--idx").arg(i.to_string())
                .arg("--nworkers").arg(pl.workers.to_string())
                .arg("--cases").arg(pl.cases_per_worker.to_string())
                .arg("--dir").arg(&edir)
                .arg("--open").arg(open.join(","))
                .arg("--soft").arg(std::env::var("MMV_SOFT_S").ok().and_then(|v| v.parse::<u64>().ok()).unwrap_or(pl.timeout_s * 45 / 100).to_string())
                .stdout(Stdio::null())
                .stderr(Stdio::from(std::fs::File::create(edir.join(format!("worker-{i}.stderr.log"))).expect("create log")))
                .spawn()
                .expect("spawn worker");
            children.push((i, child));
        }
        let deadline = Instant::now() + Duration::from_secs(pl.timeout_s);
        let mut m = Merged {
            engine: pl.engine.to_string(),
            evaluations: 0,
            hashes: BTreeSet::new(),
            classes: BTreeMap::new(),
            samples: vec![],
            foreign: BTreeMap::new(),
            aborted: 0,
            excluded: BTreeMap::new(),
            violations: vec![],
            errors: vec![],
            exhaustive: None,
            rule: crate::rule_for(&a.prop, pl.engine),
        };
        for (i, mut child) in children {
            let status = loop {
                match child.try_wait() {
                    Ok(Some(st)) => break Some(st),
                    Ok(None) => {
                        if Instant::now() > deadline {
                            let _ = child.kill();
                            let _ = child.wait();
                            break None;
                        }
                        std::thread::sleep(Duration::from_millis(20));
                    }
                    Err(_) => break None,
                }
            };
            let rfile = edir.join(format!("worker-{i}.result.json"));
            let inflight = edir.join(format!("worker-{i}.inflight.json"));
            match status {
                Some(st) if st.success() => match std::fs::read(&rfile).ok().and_then(|b| serde_json::from_slice::<WorkerResult>(&b).ok()) {
                    Some(r) => {
                        m.evaluations += r.evaluations;
                        m.hashes.extend(r.nontrivial_hashes.iter().copied());
                        for (k, v) in r.classes {
                            *m.classes.entry(k).or_insert(0) += v;
                        }
                        for (k, v) in r.foreign {
                            *m.foreign.entry(k).or_insert(0) += v;
                        }
                        for (k, v) in r.excluded {
                            *m.excluded.entry(k).or_insert(0) += v;
                        }
                        m.aborted += r.aborted_by_panic;
                        if m.samples.len() < 4 {
                            m.samples.extend(r.samples.into_iter().take(2));
                        }
                        if let Some(f) = r.violation {
                            m.violations.push(f);
                        }
                        if let Some(e) = r.error {
                            m.errors.push(format!("worker {i}: {e}"));
                        }
                    }
                    None => m.errors.push(format!("worker {i} of engine {} left no result", pl.engine)),
                },
                Some(st) => {
                    // crashed: abort, segfault, ... The in-flight case is the witness.
                    let stderr = std::fs::read_to_string(edir.join(format!("worker-{i}.stderr.log"))).unwrap_or_default();
                    let tail: String = stderr.lines().rev().take(6).collect::<Vec<_>>().into_iter().rev().collect::<Vec<_>>().join(" | ");
                    if inflight.exists() {
                        let keep = dir.join(format!("crash-{}-{}.json", pl.engine, i));
                        let _ = std::fs::copy(&inflight, &keep);
                        // does it reproduce in a fresh process?
                        let rep = Command::new(&exe).arg("replay-case").arg(&keep).arg("--prop").arg(&a.prop).arg("--engine").arg(pl.engine).stdout(Stdio::null()).stderr(Stdio::null()).status();
                        let reproduces = rep.map(|s| s.code().is_none() || s.code() == Some(101) || s.code() == Some(134)).unwrap_or(false);
                        if reproduces && a.prop == "C08" {
                            let case: serde_json::Value = serde_json::from_slice(&std::fs::read(&keep).unwrap_or_default()).unwrap_or(serde_json::Value::Null);
                            m.violations.push(Found {
                                property: "C08".into(),
                                message: format!("[C08] the process died ({st}) while executing this case, and dies again when it is replayed in a fresh process: {tail}"),
                                engine: pl.engine.to_string(),
                                case,
                                trace: vec![],
                                avoid: vec![],
                            });
                        } else if reproduces {
                            m.errors.push(format!("worker {i} died ({st}) on a case that kills the process reproducibly; that is a C08 matter ({}): {tail}", keep.display()));
                        } else {
                            m.errors.push(format!("worker {i} died ({st}); the in-flight case does not reproduce it: {tail}"));
                        }
                    } else if a.prop == "C08" && pl.engine == "stress" && tail.contains("LIBRARY PANIC") {
                        // a panic raised by the library under uncontrolled real threads: the
                        // message is the witness (it may not reproduce)
                        let line = stderr.lines().find(|l| l.contains("LIBRARY PANIC")).unwrap_or("").to_string();
                        m.violations.push(Found {
                            property: "C08".into(),
                            message: format!("[C08] {line}"),
                            engine: pl.engine.to_string(),
                            case: serde_json::json!({"workload": "stress", "worker": i}),
                            trace: vec!["uncontrolled real threads: this counterexample may not reproduce on replay; the message above is the witness".into()],
                            avoid: vec![],
                        });
                    } else {
                        m.errors.push(format!("worker {i} died ({st}) outside a case: {tail}"));
                    }
                }
                None => {
                    // watchdog
                    if a.prop == "C09" && m.violations.iter().any(|f| f.message.contains("does not return")) {
                        // one confirmed hang is enough; the other hung workers are the same story
                    } else if inflight.exists() && a.prop == "C09" {
                        let keep = dir.join(format!("hang-{}-{}.json", pl.engine, i));
                        let _ = std::fs::copy(&inflight, &keep);
                        let mut hung = 0;
                        for _ in 0..2 {
                            let mut c = Command::new(&exe).arg("replay-case").arg(&keep).arg("--prop").arg(&a.prop).arg("--engine").arg(pl.engine).stdout(Stdio::null()).stderr(Stdio::null()).spawn().expect("spawn");
                            let dl = Instant::now() + Duration::from_secs(20);
                            loop {
                                match c.try_wait() {
                                    Ok(Some(_)) => break,
                                    Ok(None) if Instant::now() > dl => {
                                        let _ = c.kill();
                                        let _ = c.wait();
                                        hung += 1;
                                        break;
                                    }
                                    _ => std::thread::sleep(Duration::from_millis(50)),
                                }
                            }
                        }
                        if hung == 2 {
                            let case: serde_json::Value = serde_json::from_slice(&std::fs::read(&keep).unwrap_or_default()).unwrap_or(serde_json::Value::Null);
                            m.violations.push(Found { property: "C09".into(), message: "[C09] an operation of this case does not return: the worker hit the watchdog and two replays in fresh processes hang as well".into(), engine: pl.engine.to_string(), case, trace: vec![], avoid: vec![] });
                        } else {
                            m.errors.push(format!("worker {i} hit the watchdog ({}s) but the in-flight case does not hang on replay: inconclusive", pl.timeout_s));
                        }
                    } else {
                        m.errors.push(format!("worker {i} of engine {} hit the watchdog ({}s): inconclusive", pl.engine, pl.timeout_s));
                    }
                }
            }
        }
        merged.push(m);
    }

    // ---- verdict -----------------------------------------------------------------
    let mut reported: BTreeSet<String> = BTreeSet::new();
    for m in &merged {
        for f in &m.violations {
            if let Some(k) = matches_known(&known, &a.prop, &f.message) {
                known_lines.insert(format!("KNOWN-FINDING: property={} {} [{}]", a.prop, k.what, k.tag));
                continue;
            }
            let p = save_replay(&a.prop, f);
            if reported.insert(p.display().to_string()) {
                println!("{}", f.message);
                for l in f.trace.iter().take(60) {
                    println!("    {l}");
                }
                println!("VIOLATION property={} replay={}", a.prop, p.display());
                violations_total += 1;
            }
            exit = 1;
        }
        for e in &m.errors {
            errors.push(format!("[{}] {e}", m.engine));
        }
    }
    for l in &known_lines {
        println!("{l}");
    }
    for m in &merged {
        if let Some(n) = m.classes.get("generated_cases_not_run_because_the_time_budget_was_used_up") {
            println!("NOTE: engine {}: the time budget of its workers was used up (slow or loaded machine); {} generated cases / enumeration steps were not run. The verdict covers what was explored.", m.engine, n);
        }
    }

    // ---- evidence ------------------------------------------------------------------
    let evaluations: u64 = merged.iter().map(|m| m.evaluations).sum::<u64>() + replayed;
    let distinct: u64 = merged.iter().map(|m| m.hashes.len() as u64).sum();
    let mut samples: Vec<serde_json::Value> = Vec::new();
    for m in &merged {
        for s in m.samples.iter().take(3) {
            samples.push(serde_json::json!({"engine": m.engine, "case": s}));
        }
    }
    let engines: Vec<serde_json::Value> = merged
        .iter()
        .map(|m| {
            let n = m.evaluations.max(1) as f64;
            let fr: BTreeMap<String, f64> = m.classes.iter().map(|(k, v)| (k.clone(), ((*v as f64 / n) * 10000.0).round() / 10000.0)).collect();
            serde_json::json!({
                "engine": m.engine,
                "evaluations": m.evaluations,
                "distinct_nontrivial": m.hashes.len(),
                "rule": m.rule,
                "class_fractions": fr,
                "violations_of_other_properties_met": m.foreign,
                "cases_aborted_by_library_panic": m.aborted,
                "excluded_for_open_findings": m.excluded,
                "exhaustive": m.exhaustive,
            })
        })
        .collect();
    let rule = merged.iter().map(|m| format!("[{}] {}", m.engine, m.rule)).collect::<Vec<_>>().join(" || ");
    let ev = serde_json::json!({
        "property_id": a.prop,
        "tier": if a.thorough { "thorough" } else { "quick" },
        "seed": a.seed,
        "level": "exploration",
        "coverage": {
            "evaluations": evaluations,
            "distinct_nontrivial": distinct,
            "rule": rule,
            "samples": samples,
            "engines": engines,
            "regression_replays_run": replayed,
            "known_findings_reported": known_lines.iter().collect::<Vec<_>>(),
            "errors": errors,
        },
        "assumptions": crate::assumptions_for(&a.prop),
        "wall_s": (t0.elapsed().as_secs_f64() * 100.0).round() / 100.0,
        "violations": violations_total,
    });
    let evdir = Path::new(&verif_root()).join("evidence");
    std::fs::create_dir_all(&evdir).ok();
    std::fs::write(evdir.join(format!("{}.json", a.prop)), serde_json::to_vec_pretty(&ev).unwrap()).expect("write evidence");

    let aborted: u64 = merged.iter().map(|m| m.aborted).sum();
    if exit == 0 {
        if !errors.is_empty() {
            for e in &errors {
                eprintln!("ERROR: {e}");
            }
            exit = 2;
        } else if evaluations > 0 && aborted * 2 > evaluations {
            eprintln!("ERROR: inconclusive: {aborted} of {evaluations} cases were aborted by a panic inside the library (see C08)");
            exit = 2;
        } else if distinct < 2 {
            eprintln!("ERROR: inconclusive: only {distinct} distinct non-trivial cases were generated");
            exit = 2;
        }
    }
    println!(
        "{} {} seed={} evaluations={} distinct_nontrivial={} violations={} wall={:.1}s exit={}",
        a.prop,
        if a.thorough { "thorough" } else { "quick" },
        a.seed,
        evaluations,
        distinct,
        violations_total,
        t0.elapsed().as_secs_f64(),
        exit
    );
    exit
}


/// FUZZ engine (thorough tier): libFuzzer campaigns (ASan on) over the targets
/// in harness/fuzz, with the semantic oracle inside the target. Fixed work:
/// `-runs=N -seed=S+i` per worker, fresh corpus directories.
fn run_fuzz(a: &RunArgs, pl: &EnginePlan, dir: &Path) -> Merged {
    let mut m = Merged {
        engine: "fuzz".to_string(),
        evaluations: 0,
        hashes: BTreeSet::new(),
        classes: BTreeMap::new(),
        samples: vec![],
        foreign: BTreeMap::new(),
        aborted: 0,
        excluded: BTreeMap::new(),
        violations: vec![],
        errors: vec![],
        exhaustive: None,
        rule: crate::rule_for(&a.prop, "fuzz"),
    };
    let targets: Vec<&str> = match a.prop.as_str() {
        "C08" => vec!["fz_seq", "fz_deque", "fz_sketch"],
        "C14" => vec!["fz_sketch", "fz_seq"],
        _ => vec!["fz_seq"],
    };
    let harness = Path::new(&verif_root()).join("harness");
    let tdir = Path::new(&verif_root()).join("target").join("fuzz");
    let envs = [("CARGO_NET_OFFLINE", "true"), ("RUSTFLAGS", "--cfg mini_moka_verif"), ("CARGO_TARGET_DIR", tdir.to_str().unwrap())];
    for t in &targets {
        let out = Command::new("cargo").args(["+nightly", "fuzz", "build", t]).current_dir(&harness).envs(envs.iter().cloned()).stdout(Stdio::piped()).stderr(Stdio::piped()).output();
        match out {
            Ok(o) if o.status.success() => {}
            Ok(o) => {
                let e = String::from_utf8_lossy(&o.stderr);
                m.errors.push(format!("cargo fuzz build {t} failed: {}", e.lines().rev().take(8).collect::<Vec<_>>().join(" | ")));
                return m;
            }
            Err(e) => {
                m.errors.push(format!("cannot run cargo fuzz: {e}"));
                return m;
            }
        }
    }
    let fdir = dir.join("fuzz");
    std::fs::create_dir_all(&fdir).ok();
    let before: BTreeSet<PathBuf> = std::fs::read_dir(Path::new(&verif_root()).join("replays")).map(|rd| rd.filter_map(|e| e.ok().map(|e| e.path())).collect()).unwrap_or_default();
    let mut children: Vec<(String, u64, Child)> = Vec::new();
    let per_target = (pl.workers as usize / targets.len()).max(1);
    let mut widx = 0u64;
    for t in &targets {
        let bin = tdir.join("x86_64-unknown-linux-gnu").join("release").join(t);
        for _ in 0..per_target {
            let corpus = fdir.join(format!("corpus-{t}-{widx}"));
            std::fs::create_dir_all(&corpus).ok();
            // a few structured seeds beside the empty corpus
            for (i, seed) in [vec![0u8; 64], (0..200u8).collect::<Vec<u8>>(), vec![0x55u8; 300]].iter().enumerate() {
                let _ = std::fs::write(corpus.join(format!("seed{i}")), seed);
            }
            let stats = fdir.join(format!("stats-{t}-{widx}.json"));
            // libFuzzer is chatty: its stderr goes to a file (a pipe nobody drains would block it)
            let errfile = std::fs::File::create(fdir.join(format!("stderr-{t}-{widx}.log"))).expect("create log");
            let child = Command::new(&bin)
                .arg(&corpus)
                .arg(format!("-runs={}", pl.cases_per_worker))
                .arg(format!("-seed={}", a.seed.wrapping_mul(1000).wrapping_add(widx + 1)))
                .arg("-len_control=0")
                .arg("-max_len=1024")
                .arg(format!("-artifact_prefix={}/", fdir.display()))
                .env("VERIF_PROPS", &a.prop)
                .env("VERIF_FUZZ_STATS", &stats)
                .env("ASAN_OPTIONS", "detect_leaks=0")
                .stdout(Stdio::null())
                .stderr(Stdio::from(errfile))
                .spawn();
            match child {
                Ok(c) => children.push((t.to_string(), widx, c)),
                Err(e) => m.errors.push(format!("cannot start fuzz target {t}: {e}")),
            }
            widx += 1;
        }
    }
    let deadline = Instant::now() + Duration::from_secs(pl.timeout_s);
    for (t, i, mut child) in children {
        let status = loop {
            match child.try_wait() {
                Ok(Some(st)) => break Some(st),
                Ok(None) => {
                    if Instant::now() > deadline {
                        let _ = child.kill();
                        let _ = child.wait();
                        break None;
                    }
                    std::thread::sleep(Duration::from_millis(50));
                }
                Err(_) => break None,
            }
        };
        let stats = fdir.join(format!("stats-{t}-{i}.json"));
        if let Some(v) = std::fs::read(&stats).ok().and_then(|b| serde_json::from_slice::<serde_json::Value>(&b).ok()) {
            let ev = v.get("evaluations").and_then(|x| x.as_u64()).unwrap_or(0);
            let nt = v.get("distinct_nontrivial").and_then(|x| x.as_u64()).unwrap_or(0);
            m.evaluations += ev;
            for j in 0..nt {
                m.hashes.insert(crate::engine::splitmix((i << 40) ^ j ^ 0xF022));
            }
            *m.classes.entry(format!("executions_{t}")).or_insert(0) += ev;
        }
        match status {
            Some(st) if st.success() => {}
            Some(st) => {
                let stderr = std::fs::read_to_string(fdir.join(format!("stderr-{t}-{i}.log"))).unwrap_or_default();
                let vline = stderr.lines().find(|l| l.starts_with("VIOLATION property="));
                if vline.is_none() {
                    // a sanitizer report or a crash outside the oracle
                    let asan = stderr.lines().find(|l| l.contains("ERROR: AddressSanitizer") || l.contains("SUMMARY:")).unwrap_or("").to_string();
                    if a.prop == "C08" {
                        m.violations.push(Found { property: "C08".into(), message: format!("[C08] fuzz target {t} died ({st}): {asan}; the input is kept under {}", fdir.display()), engine: "fuzz-raw".into(), case: serde_json::json!({"target": t, "artifact_dir": fdir.display().to_string()}), trace: stderr.lines().rev().take(30).map(|s| s.to_string()).collect::<Vec<_>>().into_iter().rev().collect(), avoid: vec![] });
                    } else {
                        m.errors.push(format!("fuzz target {t} worker {i} died ({st}) outside the oracle of {}: {asan}", a.prop));
                    }
                }
            }
            None => m.errors.push(format!("fuzz target {t} worker {i} hit the watchdog ({}s): inconclusive", pl.timeout_s)),
        }
    }
    // replay files written by the targets' oracles
    let after: BTreeSet<PathBuf> = std::fs::read_dir(Path::new(&verif_root()).join("replays")).map(|rd| rd.filter_map(|e| e.ok().map(|e| e.path())).collect()).unwrap_or_default();
    for p in after.difference(&before) {
        if p.file_name().and_then(|n| n.to_str()).map_or(false, |n| n.starts_with(&format!("{}-fuzz-", a.prop))) {
            if let Some(f) = std::fs::read(p).ok().and_then(|b| serde_json::from_slice::<Found>(&b).ok()) {
                m.violations.push(f);
            }
        }
    }
    m.samples.push(serde_json::json!({"targets": targets, "runs_per_worker": pl.cases_per_worker, "note": "inputs are byte strings decoded into the same Case values as the proptest engines; corpus directories are under target/run"}));
    m
}
