//! Switch-point callback used by the sequential engines: it only counts events
//! and enforces the retry budget of C09 (a bounded-termination oracle).

use mini_moka::verif::site;
use std::cell::Cell;

#[derive(Clone, Copy, Debug, Default)]
pub struct Counters {
    pub try_sync_won: u64,
    pub consecutive_retries: u64,
    pub max_consecutive_retries: u64,
}

thread_local! {
    static C: Cell<Counters> = Cell::new(Counters::default());
}

pub const RETRY_BUDGET: u64 = 10_000;

pub fn reset_counters() {
    C.with(|c| c.set(Counters::default()));
}

pub fn counters() -> Counters {
    C.with(|c| c.get())
}

/// Installs the counting callback on the calling thread.
pub fn install() {
    mini_moka::verif::set_switch_callback(Some(Box::new(|s: u16| {
        C.with(|c| {
            let mut v = c.get();
            match s {
                x if x == site::TRY_SYNC_WON => v.try_sync_won += 1,
                x if x == site::WRITE_RETRY => {
                    v.consecutive_retries += 1;
                    if v.consecutive_retries > v.max_consecutive_retries {
                        v.max_consecutive_retries = v.consecutive_retries;
                    }
                }
                x if x == site::INSERT_START || x == site::INVALIDATE_AFTER_MAP => {
                    v.consecutive_retries = 0
                }
                _ => {}
            }
            c.set(v);
            if v.consecutive_retries > RETRY_BUDGET {
                v.consecutive_retries = 0;
                c.set(v);
                panic!("C09: a write retried a full operation queue more than {} times without progress", RETRY_BUDGET);
            }
        })
    })));
}

pub fn uninstall() {
    mini_moka::verif::set_switch_callback(None);
}
