//! Case types shared by all engines: configuration, operations, histories.

use serde::{Deserialize, Serialize};

pub const MS: u64 = 1_000_000;
pub const SEC: u64 = 1_000_000_000;

#[derive(Clone, Copy, Debug, PartialEq, Eq, Hash, Serialize, Deserialize)]
pub enum Kind {
    Unsync,
    Sync,
}

#[derive(Clone, Copy, Debug, PartialEq, Eq, Hash, Serialize, Deserialize)]
pub enum HasherKind {
    /// SipHash-1-3 with fixed keys (deterministic `DefaultHasher`).
    Sip,
    /// Every key hashes to the same value.
    Collide,
    /// hash(key) == key (low entropy).
    Identity,
}

#[derive(Clone, Copy, Debug, PartialEq, Eq, Hash, Serialize, Deserialize)]
pub enum WeigherKind {
    /// No weigher configured: every entry weighs 1.
    None,
    /// `|_k, v| v.w`: the weight travels in the value.
    Value,
}

#[derive(Clone, Debug, PartialEq, Eq, Hash, Serialize, Deserialize)]
pub struct Cfg {
    pub kind: Kind,
    pub cap: Option<u64>,
    pub weigher: WeigherKind,
    /// nanoseconds
    pub ttl: Option<u64>,
    /// nanoseconds
    pub tti: Option<u64>,
    pub hasher: HasherKind,
    pub init_cap: Option<usize>,
    /// number of distinct keys the history draws from
    pub nkeys: u32,
}

#[derive(Clone, Copy, Debug, PartialEq, Eq, Hash, Serialize, Deserialize)]
pub enum Pred {
    Always,
    Never,
    /// key bit set in mask
    KeyMask(u64),
    /// value sequence number parity
    SeqParity(bool),
    /// value weight field equals
    WeightIs(u32),
}

impl Pred {
    pub fn eval(&self, k: u32, seq: u32, w: u32) -> bool {
        match *self {
            Pred::Always => true,
            Pred::Never => false,
            Pred::KeyMask(m) => (m >> (k % 64)) & 1 == 1,
            Pred::SeqParity(odd) => (seq % 2 == 1) == odd,
            Pred::WeightIs(x) => w == x,
        }
    }
}

#[derive(Clone, Copy, Debug, PartialEq, Eq, Hash, Serialize, Deserialize)]
pub enum Which {
    Ttl,
    Tti,
}

#[derive(Clone, Debug, PartialEq, Eq, Hash, Serialize, Deserialize)]
pub enum Op {
    Insert { k: u32, w: u32 },
    Get { k: u32 },
    Contains { k: u32 },
    Iter,
    Invalidate { k: u32 },
    InvalidateAll,
    /// unsync only; skipped on the concurrent cache (no such API)
    InvalidateIf { p: Pred },
    Advance { ns: u64 },
    /// Advance so that `now == deadline(k, which) + delta` if that lies ahead.
    AdvanceTo { k: u32, which: Which, delta: i8 },
    /// explicit `sync()` (concurrent cache; no-op on unsync)
    Sync,
    /// `sync()` followed by advancing 501 ms: leaves the periodic-sync window.
    EnterBeyond,
    /// `sync(); insert; sync()`: an insert evaluated at quiescence.
    SyncedInsert { k: u32, w: u32 },
    /// `n` inserts of fresh keys (outside the key universe) without sync
    Burst { n: u32, w: u32, gets: bool },
    /// read `entry_count()` / `weighted_size()` (observations only)
    Counters,
    /// get / contains_key of one of the keys inserted by earlier bursts
    GetFresh { sel: u16 },
    ContainsFresh { sel: u16 },
    /// concurrent cache: open an iterator, take `after` items, call invalidate_all(), take the rest
    IterInvalidateAll { after: u8 },
    /// concurrent cache: clone the handle in use / drop another handle / switch handle /
    /// toggle the alternative entry points (`get_if_present`, `IntoIterator for &Cache`)
    Handle { sel: u8 },
    /// `format!("{:?}", cache)`: the entries it lists are an iteration
    DebugFmt,
    /// invalidate the `n` most recently burst-inserted keys in a row, without sync
    BurstInvalidate { n: u32 },
    /// open an iterator, take `after` items, advance the clock by `ns`, take the rest
    IterAdvance { after: u8, ns: u64 },
}

#[derive(Clone, Debug, PartialEq, Eq, Hash, Serialize, Deserialize)]
pub struct Case {
    pub cfg: Cfg,
    pub ops: Vec<Op>,
    /// C15 only: positions (index into `ops`, before which) and the extra pure
    /// observation to insert there.
    #[serde(default)]
    pub extra: Vec<(usize, Op)>,
    /// drop the cache at the end without a final sync (C11)
    #[serde(default)]
    pub drop_unsynced: bool,
}

impl Case {
    pub fn hash64(&self) -> u64 {
        use std::hash::{Hash, Hasher};
        let mut h = std::collections::hash_map::DefaultHasher::new();
        self.hash(&mut h);
        h.finish()
    }
}

pub fn fmt_ns(ns: u64) -> String {
    if ns == 0 {
        "0".into()
    } else if ns % SEC == 0 {
        format!("{}s", ns / SEC)
    } else if ns % MS == 0 {
        format!("{}ms", ns / MS)
    } else if ns > SEC {
        format!("{}s+{}ns", ns / SEC, ns % SEC)
    } else {
        format!("{}ns", ns)
    }
}
