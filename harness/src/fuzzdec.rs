//! Byte-level decoding for the libFuzzer targets: bytes -> (RawCfg, Vec<RawOp>)
//! -> the same `Case` values the proptest generators build. The first bytes are
//! the configuration, the rest is a list of operations.

use crate::comp_deque::{DOp, DequeCase};
use crate::comp_sketch::{SOp, SketchCase};
use crate::gen::{build_case, profile_for, RawCfg, RawOp};
use crate::types::Case;
use arbitrary::{Result, Unstructured};

fn raw_cfg(u: &mut Unstructured) -> Result<RawCfg> {
    Ok(RawCfg {
        kind_sel: u.arbitrary()?,
        nkeys: u.arbitrary()?,
        hasher: u.arbitrary()?,
        weigher: u.arbitrary()?,
        weight_by_key: u.arbitrary()?,
        ttl: u.arbitrary()?,
        tti: u.arbitrary()?,
        init_cap: u.arbitrary()?,
        cap_sel: u.arbitrary()?,
        cap_small: u.arbitrary()?,
        cap_slack: u.arbitrary()?,
        drop_unsynced: u.arbitrary()?,
    })
}

fn raw_op(u: &mut Unstructured, bursts: bool) -> Result<RawOp> {
    let sel: u8 = u.arbitrary()?;
    Ok(match sel % 32 {
        0..=7 => RawOp::Insert { k: u.arbitrary()?, w: u.arbitrary()? },
        8..=13 => RawOp::Get { k: u.arbitrary()? },
        14 | 15 => RawOp::Contains { k: u.arbitrary()? },
        16 => RawOp::Iter,
        17 | 18 => RawOp::Invalidate { k: u.arbitrary()? },
        19 => RawOp::InvalidateAll,
        20 => RawOp::InvalidateIf { sel: u.arbitrary()?, arg: u.arbitrary()? },
        21 | 22 => RawOp::Advance { sel: u.arbitrary()? },
        23 | 24 => RawOp::AdvanceTo { k: u.arbitrary()?, which: u.arbitrary()?, delta: u.arbitrary()? },
        25 => RawOp::Sync,
        26 => RawOp::EnterBeyond,
        27 => RawOp::SyncedInsert { k: u.arbitrary()?, w: u.arbitrary()? },
        28 => {
            if bursts {
                RawOp::Burst { n: u.arbitrary()?, w: u.arbitrary()?, gets: u.arbitrary()? }
            } else {
                RawOp::Counters
            }
        }
        29 => RawOp::WarmInsert { k: u.arbitrary()?, w: u.arbitrary()?, n: u.arbitrary()? },
        30 => RawOp::FreshLookup { sel: u.arbitrary()?, contains: u.arbitrary()? },
        31 => {
            if u.arbitrary::<bool>()? {
                RawOp::IterAdvance { after: u.arbitrary()?, sel: u.arbitrary()? }
            } else {
                RawOp::InsertBatch { items: u.arbitrary()?, n: u.arbitrary()? }
            }
        }
        _ => match u.int_in_range(0u8..=3)? {
            0 | 1 => RawOp::Handle { sel: u.arbitrary()? },
            2 => RawOp::DebugFmt,
            _ => RawOp::ReadQueueProbe { k: u.arbitrary()?, k2: u.arbitrary()?, n: u.arbitrary()?, which: u.arbitrary()? },
        },
    })
}

/// `profile`: the property whose generator profile shapes the case ("C08" = union).
pub fn seq_case(data: &[u8], profile: &str) -> Option<Case> {
    let mut u = Unstructured::new(data);
    let rc = raw_cfg(&mut u).ok()?;
    let mut p = profile_for(profile, true);
    p.max_ops = 150;
    let mut bursts_left = if p.burst_sizes.is_empty() { 0 } else { 2 };
    let mut ops = Vec::new();
    while !u.is_empty() && ops.len() < 150 {
        match raw_op(&mut u, bursts_left > 0) {
            Ok(op) => {
                if matches!(op, RawOp::Burst { .. }) {
                    bursts_left -= 1;
                }
                ops.push(op)
            }
            Err(_) => break,
        }
    }
    Some(build_case(&p, rc, ops))
}

pub fn sketch_case(data: &[u8]) -> Option<SketchCase> {
    let mut u = Unstructured::new(data);
    const CAPS: [u32; 12] = [0, 1, 2, 3, 5, 8, 100, 128, 129, 200, 1000, 3000];
    let cap = CAPS[u.arbitrary::<u8>().ok()? as usize % CAPS.len()];
    let nu = 1 + u.arbitrary::<u8>().ok()? as usize % 64;
    let low_entropy: bool = u.arbitrary().ok()?;
    let mut universe = Vec::new();
    for _ in 0..nu {
        let h: u64 = u.arbitrary().ok()?;
        universe.push(if low_entropy { h % 64 } else { h });
    }
    let mut ops = Vec::new();
    while !u.is_empty() && ops.len() < 4000 {
        let sel: u8 = match u.arbitrary() {
            Ok(s) => s,
            Err(_) => break,
        };
        ops.push(match sel % 8 {
            0..=2 => SOp::Rec(u.arbitrary().unwrap_or(0)),
            3 => SOp::RecN(u.arbitrary().unwrap_or(0), 1 + u.arbitrary::<u8>().unwrap_or(0) % 20),
            _ => SOp::Directed(u.arbitrary().unwrap_or(0)),
        });
    }
    Some(SketchCase { cap, universe, probes: vec![0x1234_5678_9abc_def0, 7], ops })
}

pub fn deque_case(data: &[u8]) -> Option<DequeCase> {
    let mut u = Unstructured::new(data);
    let mut ops = Vec::new();
    while !u.is_empty() && ops.len() < 2000 {
        let sel: u8 = match u.arbitrary() {
            Ok(s) => s,
            Err(_) => break,
        };
        ops.push(match sel % 16 {
            0..=4 => DOp::Push,
            5..=7 => DOp::MoveToBack(u.arbitrary().unwrap_or(0)),
            8 => DOp::MoveFrontToBack,
            9..=11 => DOp::Unlink(u.arbitrary().unwrap_or(0)),
            12 => DOp::PopFront,
            13 | 14 => DOp::CursorNext,
            _ => DOp::WalkLinks,
        });
    }
    Some(DequeCase { ops })
}
