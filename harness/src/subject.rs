//! The two caches behind one interface, plus physical snapshots via the hooks.

use crate::track::{Reg, VBuild, TK, TV};
use crate::types::*;
use mini_moka::sync::ConcurrentCacheExt;
use mini_moka::verif::MockClock;
use std::sync::Arc;
use std::time::Duration;

#[derive(Clone, Debug, PartialEq, Eq)]
pub struct SnapEntry {
    pub k: u32,
    pub seq: u32,
    /// weight field carried by the value
    pub w_val: u32,
    /// weight the cache stored for the entry
    pub policy_weight: u32,
    pub admitted: bool,
    pub dirty: bool,
    pub has_ao: bool,
    pub has_wo: bool,
}

#[derive(Clone, Debug, Default)]
pub struct Snap {
    /// sorted by key
    pub entries: Vec<SnapEntry>,
    pub probation: Vec<u32>,
    pub write_order: Vec<u32>,
    pub other_ao_len: usize,
    pub entry_count: u64,
    pub weighted_size: u64,
    pub sketch_enabled: bool,
    pub sketch_resets: u32,
    pub read_q: usize,
    /// capacity of the read operation queue (concurrent cache; 0 otherwise)
    pub read_q_cap: usize,
    pub write_q: usize,
    pub sync_running: bool,
}

impl Snap {
    pub fn get(&self, k: u32) -> Option<&SnapEntry> {
        self.entries
            .binary_search_by_key(&k, |e| e.k)
            .ok()
            .map(|i| &self.entries[i])
    }
    pub fn has(&self, k: u32) -> bool {
        self.get(k).is_some()
    }
    pub fn keys(&self) -> Vec<u32> {
        self.entries.iter().map(|e| e.k).collect()
    }
    pub fn quiescent(&self) -> bool {
        self.read_q == 0 && self.write_q == 0 && !self.sync_running
    }
}

pub trait Subject {
    fn kind(&self) -> Kind;
    fn insert(&mut self, k: u32, seq: u32, w: u32);
    fn get(&mut self, k: u32) -> Option<(u32, u32)>;
    fn contains(&mut self, k: u32) -> bool;
    fn iter(&mut self) -> Vec<(u32, u32, u32)>;
    /// items yielded before and after invalidate_all() was called in the middle of one
    /// iteration (None where the borrow rules make that impossible)
    fn iter_with_invalidate_all(&mut self, after: usize) -> Option<(Vec<(u32, u32, u32)>, Vec<(u32, u32, u32)>)>;
    /// clone / drop / switch cache handles, toggle alternative entry points (concurrent cache)
    fn handle_op(&mut self, _sel: u8) -> &'static str {
        "n/a"
    }
    /// the (key, value sequence number) pairs listed by the cache's `Debug` output
    fn debug_pairs(&mut self) -> Vec<(u32, u32)>;
    /// items yielded before and after the clock was advanced in the middle of one iteration
    fn iter_with_advance(&mut self, after: usize, ns: u64) -> (Vec<(u32, u32, u32)>, Vec<(u32, u32, u32)>);
    fn invalidate(&mut self, k: u32);
    fn invalidate_all(&mut self);
    /// returns false if the API does not exist for this kind
    fn invalidate_if(&mut self, p: Pred) -> bool;
    fn sync(&mut self);
    fn advance(&mut self, ns: u64);
    fn entry_count(&self) -> u64;
    fn weighted_size(&self) -> u64;
    fn snapshot(&self) -> Snap;
    fn walk(&self, quiescent: bool) -> Result<(), String>;
    fn freq(&self, k: u32) -> u8;
    fn policy(&self) -> (Option<u64>, Option<Duration>, Option<Duration>);
}


fn parse_debug(s: &str) -> Vec<(u32, u32)> {
    // "{k3: v7(w1), k0: v2(w0)}"
    let mut out = Vec::new();
    let b = s.as_bytes();
    let mut i = 0;
    while i < b.len() {
        if b[i] == b'k' && i + 1 < b.len() && b[i + 1].is_ascii_digit() {
            let mut j = i + 1;
            let mut k = 0u32;
            while j < b.len() && b[j].is_ascii_digit() {
                k = k * 10 + (b[j] - b'0') as u32;
                j += 1;
            }
            // expect ": v<seq>"
            if j + 3 < b.len() && &b[j..j + 3] == b": v" {
                let mut l = j + 3;
                let mut v = 0u32;
                while l < b.len() && b[l].is_ascii_digit() {
                    v = v * 10 + (b[l] - b'0') as u32;
                    l += 1;
                }
                out.push((k, v));
                i = l;
                continue;
            }
            i = j;
        } else {
            i += 1;
        }
    }
    out
}

pub fn weight_of(cfg: &Cfg, w: u32) -> u32 {
    match cfg.weigher {
        WeigherKind::None => 1,
        WeigherKind::Value => w,
    }
}

pub fn build(cfg: &Cfg, reg: &Arc<Reg>) -> Box<dyn Subject> {
    match cfg.kind {
        Kind::Unsync => Box::new(UnsyncSubject::new(cfg, reg)),
        Kind::Sync => Box::new(SyncSubject::new(cfg, reg)),
    }
}

// ---------------------------------------------------------------------------

pub struct UnsyncSubject<S = VBuild> {
    cache: mini_moka::unsync::Cache<TK, TV, S>,
    clock: MockClock,
    reg: Arc<Reg>,
}

impl<S: std::hash::BuildHasher + Clone> UnsyncSubject<S> {
    pub fn from_cache(mut cache: mini_moka::unsync::Cache<TK, TV, S>, reg: &Arc<Reg>) -> Self {
        let clock = cache.verif_set_clock();
        UnsyncSubject { cache, clock, reg: Arc::clone(reg) }
    }
}

impl UnsyncSubject {
    pub fn new(cfg: &Cfg, reg: &Arc<Reg>) -> Self {
        let mut b = mini_moka::unsync::Cache::builder();
        if let Some(c) = cfg.cap {
            b = b.max_capacity(c);
        }
        if let Some(n) = cfg.init_cap {
            b = b.initial_capacity(n);
        }
        if let WeigherKind::Value = cfg.weigher {
            b = b.weigher(|_k: &TK, v: &TV| v.w);
        }
        if let Some(d) = cfg.ttl {
            b = b.time_to_live(Duration::from_nanos(d));
        }
        if let Some(d) = cfg.tti {
            b = b.time_to_idle(Duration::from_nanos(d));
        }
        let mut cache = b.build_with_hasher(VBuild { kind: cfg.hasher });
        let clock = cache.verif_set_clock();
        UnsyncSubject {
            cache,
            clock,
            reg: Arc::clone(reg),
        }
    }
}

impl<S: std::hash::BuildHasher + Clone> Subject for UnsyncSubject<S> {
    fn kind(&self) -> Kind {
        Kind::Unsync
    }
    fn insert(&mut self, k: u32, seq: u32, w: u32) {
        let key = TK::new(k, &self.reg);
        let val = TV::new(seq, w, &self.reg);
        self.cache.insert(key, val);
    }
    fn get(&mut self, k: u32) -> Option<(u32, u32)> {
        let key = TK::new(k, &self.reg);
        self.cache.get(&key).map(|v| (v.seq, v.w))
    }
    fn contains(&mut self, k: u32) -> bool {
        let key = TK::new(k, &self.reg);
        self.cache.contains_key(&key)
    }
    fn iter(&mut self) -> Vec<(u32, u32, u32)> {
        self.cache.iter().map(|(k, v)| (k.k, v.seq, v.w)).collect()
    }
    fn iter_with_invalidate_all(&mut self, _after: usize) -> Option<(Vec<(u32, u32, u32)>, Vec<(u32, u32, u32)>)> {
        None
    }
    fn debug_pairs(&mut self) -> Vec<(u32, u32)> {
        parse_debug(&format!("{:?}", self.cache))
    }
    fn iter_with_advance(&mut self, after: usize, ns: u64) -> (Vec<(u32, u32, u32)>, Vec<(u32, u32, u32)>) {
        let (mut a, mut b) = (Vec::new(), Vec::new());
        let mut it = self.cache.iter();
        for _ in 0..after {
            match it.next() {
                Some((k, v)) => a.push((k.k, v.seq, v.w)),
                None => break,
            }
        }
        self.clock.advance(Duration::from_nanos(ns));
        for (k, v) in it {
            b.push((k.k, v.seq, v.w));
        }
        (a, b)
    }
    fn invalidate(&mut self, k: u32) {
        let key = TK::new(k, &self.reg);
        self.cache.invalidate(&key);
    }
    fn invalidate_all(&mut self) {
        self.cache.invalidate_all();
    }
    fn invalidate_if(&mut self, p: Pred) -> bool {
        self.cache
            .invalidate_entries_if(move |k, v| p.eval(k.k, v.seq, v.w));
        true
    }
    fn sync(&mut self) {}
    fn advance(&mut self, ns: u64) {
        self.clock.advance(Duration::from_nanos(ns));
    }
    fn entry_count(&self) -> u64 {
        self.cache.entry_count()
    }
    fn weighted_size(&self) -> u64 {
        self.cache.weighted_size()
    }
    fn snapshot(&self) -> Snap {
        use mini_moka::unsync::VerifDeque as D;
        let mut s = Snap::default();
        self.cache.verif_for_each_entry(|k, v, m| {
            s.entries.push(SnapEntry {
                k: k.k,
                seq: v.seq,
                w_val: v.w,
                policy_weight: m.policy_weight,
                admitted: true,
                dirty: false,
                has_ao: m.has_access_order_node,
                has_wo: m.has_write_order_node,
            })
        });
        s.entries.sort_by_key(|e| e.k);
        self.cache
            .verif_deque_keys(D::Probation, |k| s.probation.push(k.k));
        self.cache
            .verif_deque_keys(D::WriteOrder, |k| s.write_order.push(k.k));
        self.cache
            .verif_deque_keys(D::Window, |_| s.other_ao_len += 1);
        self.cache
            .verif_deque_keys(D::Protected, |_| s.other_ao_len += 1);
        s.entry_count = self.cache.entry_count();
        s.weighted_size = self.cache.weighted_size();
        s.sketch_enabled = self.cache.verif_sketch_enabled();
        s.sketch_resets = self.cache.verif_sketch_resets();
        s
    }
    fn walk(&self, _quiescent: bool) -> Result<(), String> {
        self.cache.verif_walk()
    }
    fn freq(&self, k: u32) -> u8 {
        let key = TK::new(k, &self.reg);
        self.cache.verif_frequency(&key)
    }
    fn policy(&self) -> (Option<u64>, Option<Duration>, Option<Duration>) {
        let p = self.cache.policy();
        (p.max_capacity(), p.time_to_live(), p.time_to_idle())
    }
}

// ---------------------------------------------------------------------------

pub struct SyncSubject<S = VBuild> {
    /// the handle in use
    pub cache: mini_moka::sync::Cache<TK, TV, S>,
    /// further clones of the same cache
    others: Vec<mini_moka::sync::Cache<TK, TV, S>>,
    alt_api: bool,
    pub clock: MockClock,
    reg: Arc<Reg>,
}

pub fn build_sync_cache(cfg: &Cfg) -> mini_moka::sync::Cache<TK, TV, VBuild> {
    let mut b = mini_moka::sync::Cache::builder();
    if let Some(c) = cfg.cap {
        b = b.max_capacity(c);
    }
    if let Some(n) = cfg.init_cap {
        b = b.initial_capacity(n);
    }
    if let WeigherKind::Value = cfg.weigher {
        b = b.weigher(|_k: &TK, v: &TV| v.w);
    }
    if let Some(d) = cfg.ttl {
        b = b.time_to_live(Duration::from_nanos(d));
    }
    if let Some(d) = cfg.tti {
        b = b.time_to_idle(Duration::from_nanos(d));
    }
    b.build_with_hasher(VBuild { kind: cfg.hasher })
}

pub fn sync_snapshot<S: std::hash::BuildHasher + Clone>(cache: &mini_moka::sync::Cache<TK, TV, S>) -> Snap {
    use mini_moka::sync::VerifDeque as D;
    let mut s = Snap::default();
    cache.verif_for_each_entry(|k, v, m| {
        s.entries.push(SnapEntry {
            k: k.k,
            seq: v.seq,
            w_val: v.w,
            policy_weight: m.policy_weight,
            admitted: m.is_admitted,
            dirty: m.is_dirty,
            has_ao: m.has_access_order_node,
            has_wo: m.has_write_order_node,
        })
    });
    s.entries.sort_by_key(|e| e.k);
    cache.verif_deque_keys(D::Probation, |k| s.probation.push(k.k));
    cache.verif_deque_keys(D::WriteOrder, |k| s.write_order.push(k.k));
    cache.verif_deque_keys(D::Window, |_| s.other_ao_len += 1);
    cache.verif_deque_keys(D::Protected, |_| s.other_ao_len += 1);
    s.entry_count = cache.entry_count();
    s.weighted_size = cache.weighted_size();
    s.sketch_enabled = cache.verif_sketch_enabled();
    s.sketch_resets = cache.verif_sketch_resets();
    let (r, w) = cache.verif_channel_lens();
    s.read_q = r;
    s.read_q_cap = cache.verif_read_queue_capacity();
    s.write_q = w;
    s.sync_running = cache.verif_is_sync_running();
    s
}

impl<S: std::hash::BuildHasher + Clone + Send + Sync + 'static> SyncSubject<S> {
    pub fn from_cache(cache: mini_moka::sync::Cache<TK, TV, S>, reg: &Arc<Reg>) -> Self {
        let clock = cache.verif_set_clock();
        SyncSubject { cache, others: Vec::new(), alt_api: false, clock, reg: Arc::clone(reg) }
    }
}

impl SyncSubject {
    pub fn new(cfg: &Cfg, reg: &Arc<Reg>) -> Self {
        let cache = build_sync_cache(cfg);
        let clock = cache.verif_set_clock();
        SyncSubject {
            cache,
            others: Vec::new(),
            alt_api: false,
            clock,
            reg: Arc::clone(reg),
        }
    }
}

impl<S: std::hash::BuildHasher + Clone + Send + Sync + 'static> Subject for SyncSubject<S> {
    fn kind(&self) -> Kind {
        Kind::Sync
    }
    fn insert(&mut self, k: u32, seq: u32, w: u32) {
        let key = TK::new(k, &self.reg);
        let val = TV::new(seq, w, &self.reg);
        self.cache.insert(key, val);
    }
    fn get(&mut self, k: u32) -> Option<(u32, u32)> {
        let key = TK::new(k, &self.reg);
        if self.alt_api {
            #[allow(deprecated)]
            let r = self.cache.get_if_present(&key);
            r.map(|v| (v.seq, v.w))
        } else {
            self.cache.get(&key).map(|v| (v.seq, v.w))
        }
    }
    fn contains(&mut self, k: u32) -> bool {
        let key = TK::new(k, &self.reg);
        self.cache.contains_key(&key)
    }
    fn iter(&mut self) -> Vec<(u32, u32, u32)> {
        if self.alt_api {
            let mut v = Vec::new();
            for r in &self.cache {
                v.push((r.key().k, r.value().seq, r.value().w));
            }
            v
        } else {
            self.cache.iter().map(|r| (r.key().k, r.value().seq, r.value().w)).collect()
        }
    }
    fn handle_op(&mut self, sel: u8) -> &'static str {
        match sel % 4 {
            0 => {
                // clone the handle in use and continue on the clone
                let c = self.cache.clone();
                let old = std::mem::replace(&mut self.cache, c);
                self.others.push(old);
                "clone handle, continue on the clone"
            }
            1 => {
                if self.others.is_empty() {
                    "no other handle to drop"
                } else {
                    let i = (sel as usize / 4) % self.others.len();
                    drop(self.others.remove(i));
                    "drop another handle"
                }
            }
            2 => {
                if let Some(o) = self.others.pop() {
                    let old = std::mem::replace(&mut self.cache, o);
                    self.others.insert(0, old);
                    "switch to another handle"
                } else {
                    "no other handle to switch to"
                }
            }
            _ => {
                self.alt_api = !self.alt_api;
                "toggle get_if_present / IntoIterator"
            }
        }
    }
    fn iter_with_invalidate_all(&mut self, after: usize) -> Option<(Vec<(u32, u32, u32)>, Vec<(u32, u32, u32)>)> {
        let (mut a, mut b) = (Vec::new(), Vec::new());
        let mut it = self.cache.iter();
        for _ in 0..after {
            match it.next() {
                Some(r) => a.push((r.key().k, r.value().seq, r.value().w)),
                None => break,
            }
        }
        self.cache.invalidate_all();
        for r in it {
            b.push((r.key().k, r.value().seq, r.value().w));
        }
        Some((a, b))
    }
    fn debug_pairs(&mut self) -> Vec<(u32, u32)> {
        parse_debug(&format!("{:?}", self.cache))
    }
    fn iter_with_advance(&mut self, after: usize, ns: u64) -> (Vec<(u32, u32, u32)>, Vec<(u32, u32, u32)>) {
        let (mut a, mut b) = (Vec::new(), Vec::new());
        let mut it = self.cache.iter();
        for _ in 0..after {
            match it.next() {
                Some(r) => a.push((r.key().k, r.value().seq, r.value().w)),
                None => break,
            }
        }
        self.clock.advance(Duration::from_nanos(ns));
        for r in it {
            b.push((r.key().k, r.value().seq, r.value().w));
        }
        (a, b)
    }
    fn invalidate(&mut self, k: u32) {
        let key = TK::new(k, &self.reg);
        self.cache.invalidate(&key);
    }
    fn invalidate_all(&mut self) {
        self.cache.invalidate_all();
    }
    fn invalidate_if(&mut self, _p: Pred) -> bool {
        false
    }
    fn sync(&mut self) {
        self.cache.sync();
    }
    fn advance(&mut self, ns: u64) {
        self.clock.advance(Duration::from_nanos(ns));
    }
    fn entry_count(&self) -> u64 {
        self.cache.entry_count()
    }
    fn weighted_size(&self) -> u64 {
        self.cache.weighted_size()
    }
    fn snapshot(&self) -> Snap {
        sync_snapshot(&self.cache)
    }
    fn walk(&self, quiescent: bool) -> Result<(), String> {
        self.cache.verif_walk(quiescent)
    }
    fn freq(&self, k: u32) -> u8 {
        let key = TK::new(k, &self.reg);
        self.cache.verif_frequency(&key)
    }
    fn policy(&self) -> (Option<u64>, Option<Duration>, Option<Duration>) {
        let p = self.cache.policy();
        (p.max_capacity(), p.time_to_live(), p.time_to_idle())
    }
}
