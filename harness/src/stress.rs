//! STRESS engine: uncontrolled real threads (the schedule is the OS's) with
//! oracles that are valid for every interleaving. Workload parameters are seeded;
//! the work is fixed (operation counts), never a time quota.

use crate::engine::{splitmix, Found, WorkerArgs, WorkerResult};
use mini_moka::sync::Cache;
use std::collections::{BTreeMap, HashMap};
use std::sync::atomic::{AtomicBool, AtomicU64, Ordering};
use std::sync::{Arc, Barrier};


fn viol(prop: &str, msg: String, params: serde_json::Value) -> Found {
    Found { property: prop.to_string(), message: format!("[{prop}] {msg}"), engine: "stress".into(), case: params, trace: vec![], avoid: vec![] }
}

// ---- C04: overshoot between maintenance runs ------------------------------------

pub struct Outcome {
    pub evaluations: u64,
    pub nontrivial: u64,
    pub classes: BTreeMap<String, u64>,
    pub sample: serde_json::Value,
    pub violation: Option<Found>,
}

pub fn overshoot(cap: u64, threads: usize, per_thread: u64) -> Outcome {
    let cache: Cache<u64, u64> = Cache::builder().max_capacity(cap).build();
    let done = Arc::new(AtomicBool::new(false));
    let barrier = Arc::new(Barrier::new(threads + 1));
    // A full iteration is not atomic: counting shard by shard while entries churn
    // can add up residents of different moments. The sampler therefore takes the
    // write side of this gate, so that no insert call is in progress while it
    // counts (inserters hold the read side for the duration of one call).
    let gate = Arc::new(std::sync::RwLock::new(()));
    let mut hs = Vec::new();
    for t in 0..threads {
        let c = cache.clone();
        let b = Arc::clone(&barrier);
        let g = Arc::clone(&gate);
        hs.push(std::thread::spawn(move || {
            b.wait();
            for i in 0..per_thread {
                let _r = g.read().unwrap_or_else(|e| e.into_inner());
                c.insert((t as u64) << 40 | i, i);
            }
        }));
    }
    // between calls nothing is in flight: residents <= max_capacity + queued writes
    // (the size of the write queue is the implementation's choice: it is read, not assumed)
    let wq = cache.verif_write_queue_capacity() as u64;
    let bound = cap.saturating_add(wq);
    let sampler = {
        let c = cache.clone();
        let d = Arc::clone(&done);
        let b = Arc::clone(&barrier);
        let g = Arc::clone(&gate);
        std::thread::spawn(move || {
            b.wait();
            let mut max = 0u64;
            let mut samples = 0u64;
            let mut over = 0u64;
            while !d.load(Ordering::Acquire) {
                let n = {
                    let _w = g.write().unwrap_or_else(|e| e.into_inner());
                    c.iter().count() as u64
                };
                samples += 1;
                if n > max {
                    max = n;
                }
                if n > cap {
                    over += 1;
                }
                std::thread::yield_now();
            }
            (max, samples, over)
        })
    };
    for h in hs {
        h.join().expect("inserter");
    }
    done.store(true, Ordering::Release);
    let (max, samples, over) = sampler.join().expect("sampler");
    use mini_moka::sync::ConcurrentCacheExt;
    cache.sync();
    let after = cache.iter().count() as u64;
    let params = serde_json::json!({"workload": "overshoot", "max_capacity": cap, "inserting_threads": threads, "inserts_per_thread": per_thread, "max_observed": max, "bound": bound, "samples": samples, "after_sync": after});
    let mut violation = None;
    if max > bound {
        violation = Some(viol("C04", format!("with {threads} inserting threads and max_capacity {cap}, a count taken while no insert call was in progress found {max} resident entries, more than max_capacity + write queue ({wq}) = {bound}"), params.clone()));
    } else if after > cap {
        violation = Some(viol("C04", format!("after all threads stopped and sync() ran, {after} entries are resident with max_capacity {cap}"), params.clone()));
    }
    let mut classes = BTreeMap::new();
    classes.insert("samples_over_capacity".to_string(), over);
    Outcome { evaluations: samples, nontrivial: over, classes, sample: params, violation }
}

// ---- C16: iteration beside concurrent writers -------------------------------------

pub fn iterate_beside_writers(nkeys: u64, writers: usize, iterators: usize, rounds: u64, init_cap: Option<usize>, bounded: bool) -> Outcome {
    let mut b = Cache::builder();
    if bounded {
        b = b.max_capacity(nkeys * 2 + 1000);
    }
    if let Some(n) = init_cap {
        b = b.initial_capacity(n);
    }
    // value = (writer << 40) | sequence number of that writer
    let cache: Cache<u64, u64> = b.build();
    for k in 0..nkeys {
        cache.insert(k, 0);
    }
    use mini_moka::sync::ConcurrentCacheExt;
    cache.sync();
    let done = Arc::new(AtomicBool::new(false));
    let barrier = Arc::new(Barrier::new(writers + iterators));
    let mut whs = Vec::new();
    for w in 0..writers {
        let c = cache.clone();
        let bar = Arc::clone(&barrier);
        whs.push(std::thread::spawn(move || {
            bar.wait();
            let mut seq = 0u64;
            for _ in 0..rounds {
                for k in 0..nkeys {
                    seq += 1;
                    c.insert(k, ((w as u64 + 1) << 40) | seq);
                }
            }
        }));
    }
    let mut ihs = Vec::new();
    for it in 0..iterators {
        let c = cache.clone();
        let d = Arc::clone(&done);
        let bar = Arc::clone(&barrier);
        ihs.push(std::thread::spawn(move || {
            bar.wait();
            let mut passes = 0u64;
            let mut changed_passes = 0u64;
            // per key: per writer the last sequence number seen
            let mut last: Vec<HashMap<u64, u64>> = vec![HashMap::new(); nkeys as usize];
            let mut prev: Vec<u64> = vec![u64::MAX; nkeys as usize];
            let mut err: Option<String> = None;
            let mut final_pass = false;
            loop {
                let finishing = d.load(Ordering::Acquire);
                let mut seen = vec![0u32; nkeys as usize];
                let mut changed = false;
                for r in c.iter() {
                    let (k, v) = (*r.key(), *r.value());
                    if k >= nkeys {
                        err = Some(format!("iteration yielded key {k}, which was never inserted"));
                        break;
                    }
                    seen[k as usize] += 1;
                    let (wr, sq) = (v >> 40, v & ((1 << 40) - 1));
                    if let Some(p) = last[k as usize].get(&wr) {
                        if sq < *p {
                            err = Some(format!("iterator {it} saw key {k} go backwards for writer {wr}: sequence {p} in an earlier pass, {sq} now"));
                        }
                    }
                    last[k as usize].insert(wr, sq);
                    if prev[k as usize] != v {
                        if prev[k as usize] != u64::MAX {
                            changed = true;
                        }
                        prev[k as usize] = v;
                    }
                }
                passes += 1;
                if changed {
                    changed_passes += 1;
                }
                if err.is_none() {
                    if let Some(k) = seen.iter().position(|n| *n > 1) {
                        err = Some(format!("iterator {it}, pass {passes}: key {k} was yielded {} times", seen[k]));
                    } else if let Some(k) = seen.iter().position(|n| *n == 0) {
                        err = Some(format!("iterator {it}, pass {passes}: key {k} stayed resident throughout but was not yielded"));
                    }
                }
                if err.is_some() || final_pass {
                    break;
                }
                if finishing {
                    final_pass = true;
                }
            }
            (passes, changed_passes, err)
        }));
    }
    for h in whs {
        h.join().expect("writer");
    }
    done.store(true, Ordering::Release);
    let mut passes = 0;
    let mut changed = 0;
    let mut err = None;
    for h in ihs {
        let (p, c, e) = h.join().expect("iterator");
        passes += p;
        changed += c;
        if err.is_none() {
            err = e;
        }
    }
    let params = serde_json::json!({"workload": "iterate_beside_writers", "keys": nkeys, "writers": writers, "iterators": iterators, "rounds_per_writer": rounds, "initial_capacity": init_cap, "bounded": bounded, "passes": passes, "passes_with_a_changed_value": changed});
    let violation = err.map(|e| viol("C16", e, params.clone()));
    let mut classes = BTreeMap::new();
    classes.insert("passes_with_a_changed_value".to_string(), changed);
    Outcome { evaluations: passes, nontrivial: changed, classes, sample: params, violation }
}

// ---- C02: per-key coherence under real threads -------------------------------------

#[derive(Clone, Copy)]
struct Ev {
    start: u64,
    end: u64,
    key: u8,
    /// 0 insert, 1 invalidate, 2 get
    kind: u8,
    /// insert: value written; get: value returned (0 = none)
    val: u64,
}

pub fn coherence(threads: usize, ops: u64, nkeys: u8, seed: u64, cap: Option<u64>) -> Outcome {
    let mut b = Cache::builder();
    if let Some(c) = cap {
        b = b.max_capacity(c);
    }
    let cache: Cache<u8, u64> = b.build();
    let clock = Arc::new(AtomicU64::new(1));
    let barrier = Arc::new(Barrier::new(threads));
    let mut hs = Vec::new();
    for t in 0..threads {
        let c = cache.clone();
        let clk = Arc::clone(&clock);
        let bar = Arc::clone(&barrier);
        hs.push(std::thread::spawn(move || {
            let mut evs: Vec<Ev> = Vec::with_capacity(ops as usize);
            let mut x = splitmix(seed ^ (t as u64) << 32);
            let mut n = 0u64;
            bar.wait();
            for _ in 0..ops {
                x = splitmix(x);
                let key = (x % nkeys as u64) as u8;
                let sel = (x >> 16) % 100;
                let start = clk.fetch_add(1, Ordering::SeqCst);
                if sel < 45 {
                    let r = c.get(&key).unwrap_or(0);
                    let end = clk.fetch_add(1, Ordering::SeqCst);
                    evs.push(Ev { start, end, key, kind: 2, val: r });
                } else if sel < 90 {
                    n += 1;
                    let v = ((t as u64 + 1) << 40) | n;
                    c.insert(key, v);
                    let end = clk.fetch_add(1, Ordering::SeqCst);
                    evs.push(Ev { start, end, key, kind: 0, val: v });
                } else if sel < 97 {
                    c.invalidate(&key);
                    let end = clk.fetch_add(1, Ordering::SeqCst);
                    evs.push(Ev { start, end, key, kind: 1, val: 0 });
                } else {
                    use mini_moka::sync::ConcurrentCacheExt;
                    c.sync();
                    clk.fetch_add(1, Ordering::SeqCst);
                }
            }
            evs
        }));
    }
    let mut all: Vec<Vec<Ev>> = Vec::new();
    for h in hs {
        all.push(h.join().expect("worker"));
    }
    let params = serde_json::json!({"workload": "coherence", "threads": threads, "ops_per_thread": ops, "keys": nkeys, "seed": seed, "max_capacity": cap});
    // writes per key sorted by start, with suffix minimum of end
    let mut writes: Vec<Vec<Ev>> = vec![Vec::new(); nkeys as usize];
    let mut by_val: HashMap<u64, Ev> = HashMap::new();
    for evs in &all {
        for e in evs {
            if e.kind != 2 {
                writes[e.key as usize].push(*e);
            }
            if e.kind == 0 {
                by_val.insert(e.val, *e);
            }
        }
    }
    let mut suffix_min_end: Vec<Vec<u64>> = Vec::new();
    for w in writes.iter_mut() {
        w.sort_by_key(|e| e.start);
        let mut sm = vec![u64::MAX; w.len() + 1];
        for i in (0..w.len()).rev() {
            sm[i] = sm[i + 1].min(w[i].end);
        }
        suffix_min_end.push(sm);
    }
    let mut checked = 0u64;
    let mut cross_thread_hits = 0u64;
    let mut violation = None;
    'outer: for (t, evs) in all.iter().enumerate() {
        let mut last_seen: HashMap<(u8, u64), u64> = HashMap::new();
        // values this thread saw replaced by another value of the key: (key, old) -> replacing value
        let mut cur_val: HashMap<u8, u64> = HashMap::new();
        let mut replaced: HashMap<(u8, u64), u64> = HashMap::new();
        for g in evs.iter().filter(|e| e.kind == 2 && e.val != 0) {
            checked += 1;
            // a value the thread has seen replaced is superseded; once the replacing insert has
            // completed it must not come back (every value is written by exactly one insert)
            if let Some(r) = replaced.get(&(g.key, g.val)) {
                if let Some(rw) = by_val.get(r) {
                    if rw.end < g.start {
                        violation = Some(viol("C02", format!("thread {t} get(k{}) [{}..{}] returned {:#x} again after the same thread had seen it replaced by {:#x}, whose insert [{}..{}] had completed before this get began", g.key, g.start, g.end, g.val, r, rw.start, rw.end), params.clone()));
                        break 'outer;
                    }
                }
            }
            if let Some(prev) = cur_val.insert(g.key, g.val) {
                if prev != g.val {
                    replaced.insert((g.key, prev), g.val);
                }
            }
            let Some(w) = by_val.get(&g.val) else {
                violation = Some(viol("C02", format!("thread {t} get(k{}) returned {:#x}, which nobody wrote", g.key, g.val), params.clone()));
                break 'outer;
            };
            if w.key != g.key {
                violation = Some(viol("C02", format!("thread {t} get(k{}) returned a value written for k{}", g.key, w.key), params.clone()));
                break 'outer;
            }
            if w.start >= g.end {
                violation = Some(viol("C02", format!("thread {t} get(k{}) [{}..{}] returned a value whose insert only started at {}", g.key, g.start, g.end, w.start), params.clone()));
                break 'outer;
            }
            let ws = &writes[g.key as usize];
            let idx = ws.partition_point(|e| e.start <= w.end);
            if suffix_min_end[g.key as usize][idx] < g.start {
                violation = Some(viol("C02", format!("thread {t} get(k{}) [{}..{}] returned the value of insert [{}..{}] although a later insert/invalidate of that key had started after it and completed before the get began", g.key, g.start, g.end, w.start, w.end), params.clone()));
                break 'outer;
            }
            let (wr, sq) = (g.val >> 40, g.val & ((1 << 40) - 1));
            if wr != t as u64 + 1 {
                cross_thread_hits += 1;
            }
            if let Some(p) = last_seen.get(&(g.key, wr)) {
                if sq < *p {
                    violation = Some(viol("C02", format!("thread {t} observed k{} going backwards in writer {wr}'s order: #{p} then #{sq}", g.key), params.clone()));
                    break 'outer;
                }
            }
            last_seen.insert((g.key, wr), sq);
        }
    }
    // after all threads stopped: nothing or a last value
    if violation.is_none() {
        use mini_moka::sync::ConcurrentCacheExt;
        cache.sync();
        for k in 0..nkeys {
            if let Some(v) = cache.get(&k) {
                match by_val.get(&v) {
                    None => violation = Some(viol("C02", format!("after all threads stopped k{k} holds {v:#x}, which nobody wrote"), params.clone())),
                    Some(w) => {
                        let ws = &writes[k as usize];
                        let idx = ws.partition_point(|e| e.start <= w.end);
                        if suffix_min_end[k as usize][idx] != u64::MAX {
                            violation = Some(viol("C02", format!("after all threads stopped k{k} holds the value of insert [{}..{}] although a later write of that key (started after it) had completed", w.start, w.end), params.clone()));
                        }
                    }
                }
            }
        }
    }
    let mut classes = BTreeMap::new();
    classes.insert("get_hits_of_another_threads_value".to_string(), cross_thread_hits);
    Outcome { evaluations: checked, nontrivial: cross_thread_hits, classes, sample: params, violation }
}

// ---- C02: one writer per key, beside threads that force admissions ----------------------------
//
// The cache is exactly as large as the set of "owned" keys; every owned key is written by
// exactly one thread, with increasing numbers, in round-robin visits (between two visits a
// key drifts to the LRU end). A visit checks the key, writes it twice in a row (the first
// write leaves an unapplied update behind while the second lands) and checks it again: the
// thread's get(k) may only show nothing or the last value it wrote; anything else was
// superseded by a completed insert. After its own invalidate(k) returned, get(k) may only
// show nothing. Meanwhile other threads make fresh keys as popular as a key can get and
// insert them, so that admissions keep evicting owned keys whose updates are still queued.
// Valid under every interleaving.
pub fn single_writer_under_admission(writers: usize, offerers: usize, rounds: u64, cap: u64, lookups_before_offer: u64) -> Outcome {
    single_writer_under_admission_ttl(writers, offerers, rounds, cap, lookups_before_offer, None)
}

/// The same with a (very short, real-time) time_to_live: owned keys keep expiring between two
/// visits, so the expiry sweep of the maintenance runs works on them while their writers
/// rewrite them. The oracle is unchanged (an expired entry shows nothing).
pub fn single_writer_under_admission_ttl(writers: usize, offerers: usize, rounds: u64, cap: u64, lookups_before_offer: u64, ttl_us: Option<u64>) -> Outcome {
    let mut b = Cache::builder().max_capacity(cap);
    if let Some(us) = ttl_us {
        b = b.time_to_live(std::time::Duration::from_micros(us));
    }
    let cache: Cache<u64, u64> = b.build();
    let barrier = Arc::new(Barrier::new(writers + offerers));
    let stop = Arc::new(AtomicBool::new(false));
    let writers_done = Arc::new(AtomicU64::new(0));
    let bad: Arc<std::sync::Mutex<Option<String>>> = Arc::new(std::sync::Mutex::new(None));
    let evicted_seen = Arc::new(AtomicU64::new(0));
    let checked = Arc::new(AtomicU64::new(0));
    let mut hs = Vec::new();
    for t in 0..writers {
        let (c, bar, stop, bad, ev, ck, wd) = (cache.clone(), Arc::clone(&barrier), Arc::clone(&stop), Arc::clone(&bad), Arc::clone(&evicted_seen), Arc::clone(&checked), Arc::clone(&writers_done));
        hs.push(std::thread::spawn(move || {
            let keys: Vec<u64> = (0..cap).filter(|k| k % writers as u64 == t as u64).collect();
            let mut last = vec![0u64; keys.len()];
            bar.wait();
            'run: for r in 0..rounds {
                for (i, &k) in keys.iter().enumerate() {
                    if stop.load(Ordering::Relaxed) {
                        break 'run;
                    }
                    let check = |expect: u64, at: &str| -> Option<String> {
                        match c.get(&k) {
                            Some(v) if v != expect => Some(format!("writer {t}: get(k{k}) returned {v} {at}, but the last completed insert of its only writer wrote {expect}: a superseded value")),
                            Some(_) => None,
                            None => {
                                ev.fetch_add(1, Ordering::Relaxed);
                                None
                            }
                        }
                    };
                    let mut report = None;
                    if last[i] > 0 {
                        report = check(last[i], "before the next write");
                    }
                    if report.is_none() {
                        if r % 37 == 36 {
                            c.invalidate(&k);
                            if let Some(v) = c.get(&k) {
                                report = Some(format!("writer {t}: get(k{k}) returned {v} right after its own invalidate(k{k}) had returned (no other thread writes that key)"));
                            }
                        }
                    }
                    if report.is_none() {
                        last[i] += 1;
                        c.insert(k, last[i]);
                        last[i] += 1;
                        c.insert(k, last[i]);
                        report = check(last[i], "right after the insert");
                    }
                    ck.fetch_add(2, Ordering::Relaxed);
                    if let Some(m) = report {
                        *bad.lock().unwrap() = Some(m);
                        stop.store(true, Ordering::Relaxed);
                        break 'run;
                    }
                }
            }
            wd.fetch_add(1, Ordering::Relaxed);
        }));
    }
    for t in 0..offerers {
        let (c, bar, stop, wd) = (cache.clone(), Arc::clone(&barrier), Arc::clone(&stop), Arc::clone(&writers_done));
        hs.push(std::thread::spawn(move || {
            bar.wait();
            let mut key = 1_000_000 * (t as u64 + 1);
            // (the offerers work for as long as the writers do: the writers' work is fixed)
            while !stop.load(Ordering::Relaxed) && wd.load(Ordering::Relaxed) < writers as u64 {
                key += 1;
                for _ in 0..lookups_before_offer {
                    let _ = c.get(&key);
                }
                c.insert(key, 1);
            }
        }));
    }
    for h in hs {
        h.join().expect("worker");
    }
    let params = serde_json::json!({"workload": "single_writer_under_admission", "writers": writers, "offerers": offerers, "rounds": rounds, "max_capacity": cap, "lookups_before_offer": lookups_before_offer, "ttl_us": ttl_us});
    let violation = bad.lock().unwrap().take().map(|m| viol("C02", m, params.clone()));
    let mut classes = BTreeMap::new();
    let ev = evicted_seen.load(Ordering::Relaxed);
    classes.insert("own_key_found_evicted_at_a_check".to_string(), ev);
    Outcome { evaluations: checked.load(Ordering::Relaxed), nontrivial: ev, classes, sample: params, violation }
}

// ---- C07: invalidate_all beside writers and readers (real clock) -------------------------

pub fn invalidation_race(invalidators: usize, writers: usize, readers: usize, rounds: u64, nkeys: u64) -> Outcome {
    invalidation_race_p("C07", invalidators, writers, readers, rounds, nkeys, false)
}

/// `iterate`: the readers run full iterations instead of gets (C16: an iteration never yields
/// an invalidated entry)
pub fn invalidation_race_p(prop: &'static str, invalidators: usize, writers: usize, readers: usize, rounds: u64, nkeys: u64, iterate: bool) -> Outcome {
    use std::time::Instant;
    let cache: Cache<u64, u64> = Cache::builder().build();
    let clk = Arc::new(AtomicU64::new(1));
    let done = Arc::new(AtomicBool::new(false));
    let barrier = Arc::new(Barrier::new(invalidators + writers + readers));
    // invalidate_all events: (instant just before the call, logical end)
    let mut ihs = Vec::new();
    for _ in 0..invalidators {
        let (c, k, b) = (cache.clone(), Arc::clone(&clk), Arc::clone(&barrier));
        ihs.push(std::thread::spawn(move || {
            b.wait();
            let mut ev = Vec::with_capacity(rounds as usize);
            for _ in 0..rounds {
                let t_s = Instant::now();
                c.invalidate_all();
                let le = k.fetch_add(1, Ordering::SeqCst);
                ev.push((t_s, le));
                std::hint::spin_loop();
            }
            ev
        }));
    }
    // inserts: value -> instant just after the call returned
    let mut whs = Vec::new();
    for w in 0..writers {
        let (c, b, d) = (cache.clone(), Arc::clone(&barrier), Arc::clone(&done));
        whs.push(std::thread::spawn(move || {
            b.wait();
            let mut ev: Vec<(u64, Instant)> = Vec::new();
            let mut n = 0u64;
            while !d.load(Ordering::Acquire) {
                n += 1;
                let v = ((w as u64 + 1) << 40) | n;
                c.insert(n % nkeys, v);
                ev.push((v, Instant::now()));
                if n % 64 == 0 {
                    use mini_moka::sync::ConcurrentCacheExt;
                    c.sync();
                }
            }
            ev
        }));
    }
    let mut rhs = Vec::new();
    for _ in 0..readers {
        let (c, k, b, d) = (cache.clone(), Arc::clone(&clk), Arc::clone(&barrier), Arc::clone(&done));
        rhs.push(std::thread::spawn(move || {
            b.wait();
            let mut ev: Vec<(u64, u64)> = Vec::new();
            let mut i = 0u64;
            while !d.load(Ordering::Acquire) {
                i += 1;
                let ls = k.fetch_add(1, Ordering::SeqCst);
                if iterate {
                    for e in c.iter() {
                        ev.push((ls, *e.value()));
                    }
                } else if let Some(v) = c.get(&(i % nkeys)) {
                    ev.push((ls, v));
                }
            }
            ev
        }));
    }
    let mut ias: Vec<(std::time::Instant, u64)> = Vec::new();
    for h in ihs {
        ias.extend(h.join().expect("invalidator"));
    }
    done.store(true, Ordering::Release);
    let mut ins: HashMap<u64, std::time::Instant> = HashMap::new();
    for h in whs {
        for (v, t) in h.join().expect("writer") {
            ins.insert(v, t);
        }
    }
    let mut gets: Vec<(u64, u64)> = Vec::new();
    for h in rhs {
        gets.extend(h.join().expect("reader"));
    }
    // for a get that began at logical time ls: the latest call instant among the
    // invalidate_all calls that had completed before (logical end < ls)
    ias.sort_by_key(|x| x.1);
    let mut prefix_max: Vec<std::time::Instant> = Vec::with_capacity(ias.len());
    for (i, x) in ias.iter().enumerate() {
        prefix_max.push(if i == 0 { x.0 } else { prefix_max[i - 1].max(x.0) });
    }
    let params = serde_json::json!({"workload": "invalidation_race", "invalidators": invalidators, "writers": writers, "readers": readers, "rounds": rounds, "keys": nkeys, "get_hits": gets.len(), "inserts": ins.len(), "iterate": iterate});
    let mut violation = None;
    let mut decided = 0u64;
    for (ls, v) in &gets {
        let Some(t_ins) = ins.get(v) else { continue };
        let idx = ias.partition_point(|x| x.1 < *ls);
        if idx == 0 {
            continue;
        }
        decided += 1;
        if prefix_max[idx - 1] > *t_ins {
            violation = Some(viol(prop, format!("{} that began after an invalidate_all had returned showed a value whose insert had returned before that invalidate_all was called (value {v:#x}); the insert preceded the call by {:?}", if iterate { "an iteration" } else { "a get" }, prefix_max[idx - 1].duration_since(*t_ins)), params.clone()));
            break;
        }
    }
    let mut classes = BTreeMap::new();
    classes.insert("get_hits_after_a_completed_invalidate_all".to_string(), decided);
    Outcome { evaluations: gets.len() as u64, nontrivial: decided, classes, sample: params, violation }
}

/// One thread runs `insert(k, v); invalidate_all(); get(k); contains_key(k)` in a loop while
/// reader threads keep looking the same keys up. The round is decided only if the wall clock
/// moved strictly between the return of the insert and the call of invalidate_all (then the
/// insert's clock reading is strictly earlier than invalidate_all's).
pub fn invalidate_beside_readers(readers: usize, rounds: u64, nkeys: u64) -> Outcome {
    use std::time::Instant;
    let cache: Cache<u64, u64> = Cache::builder().build();
    let done = Arc::new(AtomicBool::new(false));
    let mut rhs = Vec::new();
    for _ in 0..readers {
        let (c, d) = (cache.clone(), Arc::clone(&done));
        rhs.push(std::thread::spawn(move || {
            let mut hits = 0u64;
            while !d.load(Ordering::Acquire) {
                for k in 0..nkeys {
                    if c.get(&k).is_some() {
                        hits += 1;
                    }
                }
            }
            hits
        }));
    }
    let params = serde_json::json!({"workload": "invalidate_beside_readers", "readers": readers, "rounds": rounds, "keys": nkeys});
    let mut violation = None;
    let mut decided = 0u64;
    for r in 0..rounds {
        let k = r % nkeys;
        cache.insert(k, r);
        let a = Instant::now();
        let mut b = Instant::now();
        let mut spins = 0;
        while b <= a && spins < 1000 {
            b = Instant::now();
            spins += 1;
        }
        cache.invalidate_all();
        if b <= a {
            continue;
        }
        decided += 1;
        let g = cache.get(&k);
        let ck = cache.contains_key(&k);
        if g.is_some() || ck {
            violation = Some(viol("C07", format!("round {r}: insert(k{k}, {r}) returned, the clock moved on, invalidate_all() returned, and then get(k{k}) = {g:?}, contains_key(k{k}) = {ck} (while {readers} other threads were reading)"), params.clone()));
            break;
        }
        if r % 256 == 255 {
            use mini_moka::sync::ConcurrentCacheExt;
            cache.sync();
        }
    }
    done.store(true, Ordering::Release);
    let mut hits = 0;
    for h in rhs {
        hits += h.join().expect("reader");
    }
    let mut classes = BTreeMap::new();
    classes.insert("invalidate_all_rounds_decided_beside_readers".to_string(), decided);
    classes.insert("concurrent_reader_hits".to_string(), hits);
    Outcome { evaluations: decided, nontrivial: decided, classes, sample: params, violation }
}

/// Writers keep re-inserting a few keys with changing weights (the weight is the value's low
/// byte) while other threads do nothing but run maintenance. After all threads stopped and
/// sync() ran, the counters must equal what the cache physically holds, the resident weight
/// must respect the capacity, and (C03) nothing may have been evicted although everything fits.
pub fn reweigh_race(prop: &str, writers: usize, syncers: usize, rounds: u64, nkeys: u64, cap: u64) -> Outcome {
    use mini_moka::sync::ConcurrentCacheExt;
    let cache: Cache<u64, u64> = Cache::builder().max_capacity(cap).weigher(|_k, v: &u64| (*v & 0xff) as u32).build();
    let done = Arc::new(AtomicBool::new(false));
    let barrier = Arc::new(Barrier::new(writers + syncers));
    let mut shs = Vec::new();
    for _ in 0..syncers {
        let (c, d, b) = (cache.clone(), Arc::clone(&done), Arc::clone(&barrier));
        shs.push(std::thread::spawn(move || {
            b.wait();
            let mut n = 0u64;
            while !d.load(Ordering::Acquire) {
                c.sync();
                n += 1;
            }
            n
        }));
    }
    let mut whs = Vec::new();
    for w in 0..writers {
        let (c, b) = (cache.clone(), Arc::clone(&barrier));
        whs.push(std::thread::spawn(move || {
            b.wait();
            let mut x = splitmix(w as u64 + 17);
            for r in 0..rounds {
                x = splitmix(x);
                // every writer owns its keys: the final value of a key is its writer's last one
                let k = (w as u64) * nkeys + x % nkeys;
                let weight = [1u64, 2, 3, 7, 12, 1, 30, 5][(x >> 8) as usize % 8];
                c.insert(k, (r << 8) | weight);
            }
        }));
    }
    for h in whs {
        h.join().expect("writer");
    }
    done.store(true, Ordering::Release);
    let mut syncs = 0;
    for h in shs {
        syncs += h.join().expect("syncer");
    }
    cache.sync();
    let params = serde_json::json!({"workload": "reweigh_race", "writers": writers, "syncers": syncers, "rounds": rounds, "keys_per_writer": nkeys, "max_capacity": cap, "sync_calls": syncs});
    let held: Vec<(u64, u64)> = cache.iter().map(|e| (*e.key(), *e.value())).collect();
    let phys_w: u64 = held.iter().map(|(_, v)| v & 0xff).sum();
    let (ec, ws) = (cache.entry_count(), cache.weighted_size());
    let mut violation = None;
    match prop {
        "C10" if ec != held.len() as u64 || ws != phys_w => {
            violation = Some(viol("C10", format!("after {writers} re-weighing writers and {syncers} maintenance threads stopped and sync() ran: entry_count()/weighted_size() = {ec}/{ws} but the cache holds {} entries weighing {phys_w}", held.len()), params.clone()));
        }
        "C04" if phys_w > cap => {
            violation = Some(viol("C04", format!("after the threads stopped and sync() ran the resident weight {phys_w} exceeds max_capacity {cap}"), params.clone()));
        }
        "C03" if (held.len() as u64) < writers as u64 * nkeys && writers as u64 * nkeys * 30 <= cap => {
            violation = Some(viol("C03", format!("{} keys were written (weights <= 30, max_capacity {cap}: everything fits), nothing was invalidated, yet only {} are resident after the threads stopped and sync() ran", writers as u64 * nkeys, held.len()), params.clone()));
        }
        _ => {}
    }
    if violation.is_none() && prop == "C03" && phys_w <= cap {
        // a refill with exactly as many fresh unit-weight keys as still fit must be fully
        // retained and must evict nothing
        let n = cap - phys_w;
        for k in 0..n {
            cache.insert(1_000_000 + k, 1);
            if k % 32 == 31 {
                cache.sync();
            }
        }
        cache.sync();
        let kept = (0..n).filter(|k| cache.contains_key(&(1_000_000 + k))).count() as u64;
        let old_kept = held.iter().filter(|(k, _)| cache.contains_key(k)).count();
        if kept != n || old_kept != held.len() {
            violation = Some(viol("C03", format!("after the race the cache held weight {phys_w} of max_capacity {cap}; of {n} fresh unit-weight keys (exactly the remaining room) {kept} were retained, and {old_kept} of the {} earlier residents are left", held.len()), params.clone()));
        }
    }
    let mut classes = BTreeMap::new();
    classes.insert("reweigh_rounds".to_string(), writers as u64 * rounds);
    Outcome { evaluations: writers as u64 * rounds, nontrivial: writers as u64 * rounds / 64, classes, sample: params, violation }
}

// ---- C05: time-to-live beside concurrent updates (real clock) ---------------------------

pub fn ttl_race(ttl_ms: u64, nkeys: u64, readers: usize, rounds: u64) -> Outcome {
    use std::time::{Duration, Instant};
    let cache: Cache<u64, u64> = Cache::builder().time_to_live(Duration::from_millis(ttl_ms)).build();
    let base = Instant::now();
    let total = (rounds * nkeys + 2) as usize;
    // per value: nanoseconds (since `base`) of an instant taken after its insert returned
    let after: Arc<Vec<AtomicU64>> = Arc::new((0..total).map(|_| AtomicU64::new(0)).collect());
    let done = Arc::new(AtomicBool::new(false));
    let barrier = Arc::new(Barrier::new(nkeys as usize + readers));
    let mut whs = Vec::new();
    for k in 0..nkeys {
        let (c, a, b) = (cache.clone(), Arc::clone(&after), Arc::clone(&barrier));
        whs.push(std::thread::spawn(move || {
            b.wait();
            for r in 0..rounds {
                let v = 1 + r * nkeys + k;
                c.insert(k, v);
                a[v as usize].store(base.elapsed().as_nanos() as u64 + 1, Ordering::SeqCst);
                // let the value pass its deadline before it is replaced
                std::thread::sleep(Duration::from_micros(ttl_ms * 1000 + 300 + (r % 7) * 50));
            }
        }));
    }
    let ttl_ns = ttl_ms * 1_000_000;
    let mut rhs = Vec::new();
    for _ in 0..readers {
        let (c, a, b, d) = (cache.clone(), Arc::clone(&after), Arc::clone(&barrier), Arc::clone(&done));
        rhs.push(std::thread::spawn(move || {
            b.wait();
            let mut hits = 0u64;
            let mut near = 0u64;
            let mut bad: Option<String> = None;
            let mut i = 0u64;
            while !d.load(Ordering::Acquire) {
                i += 1;
                let k = i % nkeys;
                let t0 = base.elapsed().as_nanos() as u64;
                if let Some(v) = c.get(&k) {
                    hits += 1;
                    let ia = a[v as usize].load(Ordering::SeqCst);
                    if ia != 0 {
                        if t0 >= ia + ttl_ns {
                            bad = Some(format!("get(k{k}) began {} ns after the insert of value {v} had returned, with time_to_live = {} ms, and still returned it", t0 - ia, ttl_ns / 1_000_000));
                            break;
                        }
                        if t0 + 200_000 >= ia + ttl_ns {
                            near += 1;
                        }
                    }
                }
            }
            (hits, near, bad)
        }));
    }
    for h in whs {
        h.join().expect("writer");
    }
    done.store(true, Ordering::Release);
    let (mut hits, mut near, mut bad) = (0, 0, None);
    for h in rhs {
        let (x, n, b) = h.join().expect("reader");
        hits += x;
        near += n;
        if bad.is_none() {
            bad = b;
        }
    }
    let params = serde_json::json!({"workload": "ttl_race", "ttl_ms": ttl_ms, "keys": nkeys, "readers": readers, "rounds": rounds, "get_hits": hits, "hits_within_200us_of_the_deadline": near});
    let violation = bad.map(|m| viol("C05", m, params.clone()));
    let mut classes = BTreeMap::new();
    classes.insert("hits_within_200us_of_the_deadline".to_string(), near);
    Outcome { evaluations: hits, nontrivial: near, classes, sample: params, violation }
}

/// Same idea on the mock clock (no sleeping, so tens of thousands of generations): the
/// writer advances the clock by exactly the time-to-live, publishes the generation
/// number, then replaces the value. Value g is written at reading g*ttl; a get that
/// started after generation g+1 was published runs at a reading >= (g+1)*ttl.
pub fn ttl_generations(readers: usize, generations: u64) -> Outcome {
    use std::time::Duration;
    let ttl = Duration::from_secs(1);
    let cache: Cache<u8, u64> = Cache::builder().time_to_live(ttl).build();
    let clock = cache.verif_set_clock();
    let tick = Arc::new(AtomicU64::new(0));
    let done = Arc::new(AtomicBool::new(false));
    cache.insert(0u8, 0u64);
    let mut rhs = Vec::new();
    for _ in 0..readers {
        let (c, t, d) = (cache.clone(), Arc::clone(&tick), Arc::clone(&done));
        rhs.push(std::thread::spawn(move || {
            let mut hits = 0u64;
            let mut fresh = 0u64;
            let mut bad = None;
            while !d.load(Ordering::SeqCst) {
                let seen = t.load(Ordering::SeqCst);
                if let Some(g) = c.get(&0u8) {
                    hits += 1;
                    if g < seen {
                        bad = Some(format!("a get that started at a clock reading >= {} x ttl returned the value written at reading {g} x ttl", seen));
                        break;
                    }
                    if g == seen {
                        fresh += 1;
                    }
                }
            }
            (hits, fresh, bad)
        }));
    }
    for g in 1..=generations {
        clock.advance(ttl);
        tick.store(g, Ordering::SeqCst);
        std::hint::spin_loop();
        cache.insert(0u8, g);
        if g % 97 == 0 {
            use mini_moka::sync::ConcurrentCacheExt;
            cache.sync();
        }
    }
    done.store(true, Ordering::SeqCst);
    let (mut hits, mut fresh, mut bad) = (0, 0, None);
    for h in rhs {
        let (x, f, b) = h.join().expect("reader");
        hits += x;
        fresh += f;
        if bad.is_none() {
            bad = b;
        }
    }
    let params = serde_json::json!({"workload": "ttl_generations", "readers": readers, "generations": generations, "get_hits": hits});
    let violation = bad.map(|m| viol("C05", m, params.clone()));
    let mut classes = BTreeMap::new();
    classes.insert("hits_of_the_current_generation".to_string(), fresh);
    Outcome { evaluations: hits.max(generations), nontrivial: generations, classes, sample: params, violation }
}

// ---- C04 / C08 / C10 / C11: mixed real-thread workload, state oracles after quiescence ---

#[allow(clippy::too_many_arguments)]
pub fn mixed(prop: &str, threads: usize, ops: u64, nkeys: u32, cap: Option<u64>, weigher: bool, ttl_ms: Option<u64>, seed: u64) -> Outcome {
    mixed_h(prop, threads, ops, nkeys, cap, weigher, ttl_ms, seed, false)
}

/// `one_shard`: every key hashes to the same value, so all keys live in one shard of
/// the map and every map operation contends on one lock.
#[allow(clippy::too_many_arguments)]
pub fn mixed_h(prop: &str, threads: usize, ops: u64, nkeys: u32, cap: Option<u64>, weigher: bool, ttl_ms: Option<u64>, seed: u64, one_shard: bool) -> Outcome {
    use crate::subject::{build_sync_cache, sync_snapshot, weight_of};
    use crate::track::{Reg, TK, TV};
    use crate::types::*;
    use mini_moka::sync::ConcurrentCacheExt;
    let cfg = Cfg { kind: Kind::Sync, cap, weigher: if weigher { WeigherKind::Value } else { WeigherKind::None }, ttl: ttl_ms.map(|m| m * MS), tti: None, hasher: if one_shard { HasherKind::Collide } else { HasherKind::Sip }, init_cap: None, nkeys };
    let reg = Reg::new();
    let cache = build_sync_cache(&cfg);
    let barrier = Arc::new(Barrier::new(threads));
    let seqs = Arc::new(AtomicU64::new(0));
    let mut hs = Vec::new();
    for t in 0..threads {
        let (c, r, b, sq) = (cache.clone(), Arc::clone(&reg), Arc::clone(&barrier), Arc::clone(&seqs));
        hs.push(std::thread::spawn(move || {
            let mut x = splitmix(seed ^ ((t as u64) << 24));
            b.wait();
            for _ in 0..ops {
                x = splitmix(x);
                let k = (x % nkeys as u64) as u32;
                match (x >> 20) % 100 {
                    0..=44 => {
                        let s = sq.fetch_add(1, Ordering::Relaxed) as u32;
                        c.insert(TK::new(k, &r), TV::new(s, ((x >> 40) % 4) as u32, &r));
                    }
                    45..=79 => {
                        let _ = c.get(&TK::new(k, &r));
                    }
                    80..=91 => c.invalidate(&TK::new(k, &r)),
                    92..=93 => c.invalidate_all(),
                    94..=96 => c.sync(),
                    _ => {
                        let _ = c.iter().count();
                    }
                }
            }
        }));
    }
    let mut panicked = false;
    for h in hs {
        if h.join().is_err() {
            panicked = true;
        }
    }
    let params = serde_json::json!({"workload": "mixed", "threads": threads, "ops_per_thread": ops, "keys": nkeys, "max_capacity": cap, "weigher": weigher, "ttl_ms": ttl_ms, "seed": seed, "one_shard": one_shard});
    let mut violation = None;
    if panicked {
        if prop == "C08" {
            violation = Some(viol("C08", "a worker thread panicked inside the library during the mixed workload".into(), params.clone()));
        }
        return Outcome { evaluations: 1, nontrivial: 0, classes: BTreeMap::new(), sample: params, violation };
    }
    cache.sync();
    if ttl_ms.is_some() {
        // let everything written at the end pass its deadline too, then purge
        std::thread::sleep(std::time::Duration::from_millis(ttl_ms.unwrap() + 5));
        cache.sync();
    }
    let snap = sync_snapshot(&cache);
    let phys_w: u64 = snap.entries.iter().map(|e| weight_of(&cfg, e.w_val) as u64).sum();
    match prop {
        "C10" => {
            if snap.entry_count != snap.entries.len() as u64 || snap.weighted_size != phys_w {
                violation = Some(viol("C10", format!("after {threads} threads stopped and sync() ran: entry_count()/weighted_size() = {}/{} but the cache physically holds {} entries weighing {}", snap.entry_count, snap.weighted_size, snap.entries.len(), phys_w), params.clone()));
            }
        }
        "C04" => {
            if let Some(c) = cap {
                if phys_w > c {
                    violation = Some(viol("C04", format!("after {threads} threads stopped and sync() ran the resident weight {phys_w} exceeds max_capacity {c}"), params.clone()));
                }
            }
        }
        "C11" if ttl_ms.is_some() && !snap.entries.is_empty() => {
            violation = Some(viol("C11", format!("time_to_live is {} ms; {} ms after the last write and after two maintenance runs the cache still holds {} entries (keys {:?}) and their key/value objects", ttl_ms.unwrap(), ttl_ms.unwrap() + 5, snap.entries.len(), snap.entries.iter().map(|e| e.k).take(8).collect::<Vec<_>>()), params.clone()));
        }
        "C11" => {
            let (lk, lv, n) = (reg.live_keys(), reg.live_vals(), snap.entries.len());
            if reg.double_drop() {
                violation = Some(viol("C11", "a key or value object was dropped twice".into(), params.clone()));
            } else if lk != n || lv != n {
                violation = Some(viol("C11", format!("after {threads} threads stopped and sync() ran: {n} entries are resident but {lk} key objects and {lv} value objects are alive"), params.clone()));
            }
        }
        "C08" => {
            if let Err(e) = cache.verif_walk(true) {
                violation = Some(viol("C08", format!("structural walk failed after the mixed real-thread workload: {e}"), params.clone()));
            } else if reg.double_drop() {
                violation = Some(viol("C08", "a key or value object was dropped twice".into(), params.clone()));
            }
        }
        _ => {}
    }
    let n_after = snap.entries.len() as u64;
    if violation.is_none() && prop == "C11" {
        // everything still resident is hidden by invalidate_all; the next maintenance run
        // must remove it and release its objects
        cache.invalidate_all();
        cache.sync();
        let left = sync_snapshot(&cache);
        if !left.entries.is_empty() || reg.live_keys() != 0 || reg.live_vals() != 0 {
            violation = Some(viol("C11", format!("{n_after} entries were resident after the threads stopped; invalidate_all() + sync() left {} of them in the cache (keys {:?}), {} key objects and {} value objects alive", left.entries.len(), left.entries.iter().map(|e| e.k).take(8).collect::<Vec<_>>(), reg.live_keys(), reg.live_vals()), params.clone()));
        }
    }
    drop(cache);
    if violation.is_none() && prop == "C11" && (reg.live_keys() != 0 || reg.live_vals() != 0) {
        violation = Some(viol("C11", format!("after dropping the last handle {} key objects and {} value objects are still alive", reg.live_keys(), reg.live_vals()), params.clone()));
    }
    let mut classes = BTreeMap::new();
    classes.insert("mixed_runs_with_residents_left".to_string(), (n_after > 0) as u64);
    Outcome { evaluations: threads as u64 * ops, nontrivial: threads as u64 * ops / 64, classes, sample: params, violation }
}

// ---- worker ---------------------------------------------------------------------------

pub const RULE_C04: &str = "real threads inserting distinct fresh unit-weight keys without sync while a monitor thread counts the residents at moments when no insert call is in progress (a gate makes the count atomic); every count must stay <= max_capacity + the capacity of the write queue (read from the cache: 384); evaluations = samples taken; non-trivial = samples that observed more than max_capacity resident entries (a real overshoot)";
pub const RULE_C16: &str = "k writer threads overwrite a fixed key set with increasing per-writer sequence numbers while m threads run full iterations; every pass must yield each key exactly once and never an older value of the same writer than an earlier pass; evaluations = passes; non-trivial = passes during which >= 1 key changed its value; plus: 2-3 threads call invalidate_all in a loop, 1-2 writers overwrite 1-3 keys, 2 threads iterate: an iteration that began after an invalidate_all had returned must not yield a value whose insert had returned before that invalidate_all was called (evaluations = yielded values, non-trivial = those yielded after a completed invalidate_all)";
pub const RULE_MIXED: &str = "real threads issue seeded insert/get/invalidate/invalidate_all/sync/iterate on a small key set (small capacity, weigher, optional real-time ttl); after all threads stopped and sync() ran the state oracle of the property is evaluated (counters vs. physical snapshot / capacity / drop registry / structural walker); evaluations = operations issued; non-trivial is counted per 64 operations issued concurrently (every block races with the other threads' blocks)";
pub const RULE_REWEIGH: &str = "real threads: 1-2 writers keep re-inserting their own 1-5 keys with weights from {1,2,3,5,7,12,30} while 1-2 other threads do nothing but call sync(); after all threads stopped and sync() ran: C10 counters equal the physical entries/weights, C04 resident weight <= max_capacity, C03 (capacity 1 000, everything fits) every written key is resident and a refill with exactly as many fresh unit-weight keys as there is room left is fully retained and evicts nothing; evaluations = inserts issued; non-trivial is counted per 64 inserts (each block races with the maintenance threads)";
pub const RULE_C05: &str = "real clock, time_to_live of a few ms: one writer per key replaces its value just after the previous one has expired while reader threads spin on get; a get that began (wall clock) at or after the instant the returned value's insert had returned + ttl is a violation; evaluations = successful gets; non-trivial = successful gets within 200 us of the value's deadline; plus the same race on the mock clock: the writer steps the clock by exactly the ttl before each replacement (60 000 generations), non-trivial = generations";
pub const RULE_C07: &str = "real threads: invalidators call invalidate_all in a loop, writers overwrite a small key set (syncing now and then), readers get; real clock; a get that began (logical counter) after an invalidate_all had returned must not show a value whose insert had returned (wall-clock instant) before that invalidate_all was called; evaluations = successful gets; non-trivial = successful gets that began after at least one completed invalidate_all; plus: one thread runs insert(k); invalidate_all(); get(k); contains_key(k) in a loop beside 1-4 reader threads of the same keys, a round counts (evaluation, non-trivial) if the wall clock moved strictly between the insert's return and the invalidate_all call, and then both lookups must miss";
pub const RULE_C02: &str = "4-16 real threads issue seeded get/insert/invalidate/sync on 1-4 keys; logical timestamps from a shared atomic counter bracket every call; same history oracle as the schedule engine; evaluations = successful gets checked; non-trivial = gets that returned a value written by another thread";

pub fn stress_worker(a: &WorkerArgs) -> WorkerResult {
    let t0 = std::time::Instant::now();
    crate::sched_hooks::uninstall();
    // A panic on one of the workload's threads (a library assertion, an overflow check)
    // must end the process at once: a thread that dies inside a maintenance run leaves the
    // maintenance flag set, and the other threads would then spin on a full queue until the
    // watchdog. The supervisor reads the marker from stderr.
    std::panic::set_hook(Box::new(|info| {
        let msg = if let Some(s) = info.payload().downcast_ref::<&str>() {
            s.to_string()
        } else if let Some(s) = info.payload().downcast_ref::<String>() {
            s.clone()
        } else {
            "<non-string panic>".to_string()
        };
        let loc = info.location().map(|l| format!("{}:{}", l.file(), l.line())).unwrap_or_default();
        let who = if loc.contains("/verif/harness/") { "HARNESS PANIC" } else { "LIBRARY PANIC" };
        eprintln!("{who} under real threads at {loc}: {msg}");
        std::process::exit(77);
    }));
    let mut res = WorkerResult::default();
    let scale: u64 = if a.thorough { 6 } else { 1 };
    let mut add = |o: Outcome, res: &mut WorkerResult, tag: u64| {
        res.evaluations += o.evaluations;
        // distinct non-trivial observations are identified by (workload, ordinal)
        for i in 0..o.nontrivial.min(5000) {
            res.nontrivial_hashes.push(splitmix(tag.wrapping_mul(0x9E37) ^ (a.idx << 48) ^ i));
        }
        for (k, v) in o.classes {
            *res.classes.entry(k).or_insert(0) += v;
        }
        if res.samples.len() < 3 {
            res.samples.push(o.sample);
        }
        if res.violation.is_none() {
            res.violation = o.violation;
        }
    };
    let x = splitmix(a.seed ^ (a.idx << 8));
    match a.prop.as_str() {
        "C04" => {
            let plans: [(u64, usize); 4] = [(10, 1), (50, 2), (100, 4), (7, 8)];
            let (cap, th) = plans[a.idx as usize % 4];
            let o = overshoot(cap + x % 3, th, 15_000 * scale);
            add(o, &mut res, 1);
            if res.violation.is_none() {
                let o = mixed("C04", 4 + a.idx as usize % 4, 8_000 * scale, 6, Some(3 + a.idx % 3), true, None, x);
                add(o, &mut res, 6);
            }
            if res.violation.is_none() {
                let o = reweigh_race("C04", 1 + a.idx as usize % 2, 1 + (a.idx as usize / 2) % 2, 30_000 * scale, 4, 20 + a.idx % 7);
                add(o, &mut res, 16);
            }
        }
        "C08" | "C10" | "C11" => {
            let plans: [(usize, u32, Option<u64>, bool, Option<u64>); 4] = [(4, 3, Some(2), true, None), (8, 6, Some(4), true, None), (6, 4, None, false, Some(3)), (3, 2, Some(1), false, None)];
            let (th, nk, cap, wg, ttl) = plans[a.idx as usize % 4];
            for round in 0..2u64 {
                let o = mixed(&a.prop, th, 8_000 * scale, nk, cap, wg, ttl, splitmix(x ^ round));
                add(o, &mut res, 7 + round);
                if res.violation.is_some() {
                    break;
                }
            }
            if res.violation.is_none() && a.prop == "C10" {
                let plans: [(usize, usize, u64); 4] = [(1, 1, 1), (1, 1, 2), (1, 2, 1), (2, 1, 1)];
                let (wr, sy, nk) = plans[a.idx as usize % 4];
                let o = reweigh_race("C10", wr, sy, 40_000 * scale, nk, 10_000);
                add(o, &mut res, 14);
            }
            // all keys in one shard of the map: maximal lock contention
            for round in 0..8u64 {
                if res.violation.is_some() {
                    break;
                }
                let sel = a.idx + round;
                let o = mixed_h(&a.prop, 4 + 2 * (sel as usize % 3), 2_500 * scale, 24 + 8 * (sel as u32 % 4), if sel % 2 == 0 { None } else { Some(16) }, false, if sel % 4 >= 2 { Some(3) } else { None }, splitmix(x ^ 99 ^ (round << 20)), true);
                add(o, &mut res, 10 + round * 16);
            }
        }
        "C03" => {
            let plans: [(usize, usize, u64); 4] = [(1, 1, 1), (1, 1, 2), (1, 2, 1), (2, 1, 1)];
            let (wr, sy, nk) = plans[a.idx as usize % 4];
            for round in 0..4u64 {
                if res.violation.is_some() {
                    break;
                }
                let o = reweigh_race("C03", wr, sy, 30_000 * scale, nk + round, 1_000);
                add(o, &mut res, 15 + round * 16);
            }
        }
        "C16" => {
            let plans: [(u64, usize, usize, Option<usize>, bool); 4] = [(64, 2, 2, None, false), (1000, 4, 2, Some(0), true), (7, 1, 4, Some(7), false), (5000, 8, 1, None, true)];
            let (n, w, i, ic, bounded) = plans[a.idx as usize % 4];
            let rounds = (40_000 / n).max(4) * scale;
            let o = iterate_beside_writers(n, w, i, rounds, ic, bounded);
            add(o, &mut res, 2);
            if res.violation.is_none() {
                let o = iterate_beside_writers(1, 2, 2, 20_000 * scale, None, false);
                add(o, &mut res, 3);
            }
            if res.violation.is_none() {
                // iterations beside invalidate_all callers and writers
                let o = invalidation_race_p("C16", 2 + a.idx as usize % 2, 1 + a.idx as usize % 2, 2, 40_000 * scale, 1 + a.idx % 3, true);
                add(o, &mut res, 17);
            }
        }
        "C05" => {
            let plans: [(u64, u64, usize); 4] = [(2, 1, 3), (1, 2, 2), (3, 1, 2), (2, 2, 4)];
            let (ttl, nk, rd) = plans[a.idx as usize % 4];
            let o = ttl_race(ttl, nk, rd, 150 * scale);
            add(o, &mut res, 11);
            if res.violation.is_none() {
                let o = ttl_generations(2 + a.idx as usize % 3, 60_000 * scale);
                add(o, &mut res, 12);
            }
        }
        "C07" => {
            let plans: [(usize, usize, usize, u64); 4] = [(2, 1, 2, 3), (3, 2, 2, 1), (3, 1, 1, 8), (2, 2, 3, 2)];
            let (iv, wr, rd, nk) = plans[a.idx as usize % 4];
            let o = invalidation_race(iv, wr, rd, 150_000 * scale, nk);
            add(o, &mut res, 5);
            if res.violation.is_none() {
                let o = invalidate_beside_readers(1 + a.idx as usize % 4, 40_000 * scale, 1 + a.idx % 3);
                add(o, &mut res, 13);
            }
        }
        "C02" => {
            let plans: [(usize, u8, Option<u64>); 4] = [(4, 1, None), (8, 3, None), (16, 4, Some(2)), (6, 2, Some(1))];
            let (th, nk, cap) = plans[a.idx as usize % 4];
            let o = coherence(th, 20_000 * scale, nk, x, cap);
            add(o, &mut res, 4);
            if res.violation.is_none() {
                // (writers, offerers, max_capacity = number of owned keys, lookups before an offer)
                let plans: [(usize, usize, u64, u64); 4] = [(4, 4, 32, 16), (2, 2, 8, 16), (4, 2, 16, 12), (3, 3, 12, 16)];
                let (wr, of, cap, lk) = plans[(a.idx as usize / 4) % 4];
                // (every other worker: entries that expire after 40 microseconds)
                let ttl = if a.idx % 2 == 1 { Some(40) } else { None };
                let o = single_writer_under_admission_ttl(wr, of, (60_000 / cap) * scale, cap, lk, ttl);
                add(o, &mut res, 18);
            }
        }
        _ => {}
    }
    // a failure is re-run (it may not reproduce); the witness itself is the counterexample
    if let Some(f) = res.violation.as_mut() {
        f.trace.push("uncontrolled real threads: this counterexample may not reproduce on replay; the message above is the witness".into());
    }
    res.wall_s = t0.elapsed().as_secs_f64();
    res
}

pub fn replay(found: &Found) -> Option<crate::exec::Violation> {
    let p = &found.case;
    let g = |k: &str| p.get(k).and_then(|v| v.as_u64()).unwrap_or(0);
    let mut worst: Option<Found> = None;
    for _ in 0..3 {
        let o = match p.get("workload").and_then(|v| v.as_str()) {
            Some("overshoot") => overshoot(g("max_capacity"), g("inserting_threads") as usize, g("inserts_per_thread")),
            Some("iterate_beside_writers") => iterate_beside_writers(g("keys"), g("writers") as usize, g("iterators") as usize, g("rounds_per_writer"), p.get("initial_capacity").and_then(|v| v.as_u64()).map(|n| n as usize), p.get("bounded").and_then(|v| v.as_bool()).unwrap_or(false)),
            Some("invalidation_race") => invalidation_race_p(if found.property == "C16" { "C16" } else { "C07" }, g("invalidators") as usize, g("writers") as usize, g("readers") as usize, g("rounds"), g("keys"), p.get("iterate").and_then(|v| v.as_bool()).unwrap_or(false)),
            Some("ttl_generations") => ttl_generations(g("readers") as usize, g("generations")),
            Some("ttl_race") => ttl_race(g("ttl_ms"), g("keys"), g("readers") as usize, g("rounds")),
            Some("mixed") => mixed_h(&found.property, g("threads") as usize, g("ops_per_thread"), g("keys") as u32, p.get("max_capacity").and_then(|v| v.as_u64()), p.get("weigher").and_then(|v| v.as_bool()).unwrap_or(false), p.get("ttl_ms").and_then(|v| v.as_u64()), g("seed"), p.get("one_shard").and_then(|v| v.as_bool()).unwrap_or(false)),
            Some("coherence") => coherence(g("threads") as usize, g("ops_per_thread"), g("keys") as u8, g("seed"), p.get("max_capacity").and_then(|v| v.as_u64())),
            Some("single_writer_under_admission") => single_writer_under_admission_ttl(g("writers") as usize, g("offerers") as usize, g("rounds"), g("max_capacity"), g("lookups_before_offer"), p.get("ttl_us").and_then(|v| v.as_u64())),
            _ => return None,
        };
        if o.violation.is_some() {
            worst = o.violation;
            break;
        }
    }
    let prop: &'static str = match found.property.as_str() {
        "C04" => "C04",
        "C05" => "C05",
        "C16" => "C16",
        "C07" => "C07",
        "C08" => "C08",
        "C10" => "C10",
        "C11" => "C11",
        _ => "C02",
    };
    worst.map(|f| crate::exec::Violation { prop, step: 0, msg: f.message })
}
