//! CFG engine (C17): property-based testing over builder call combinations,
//! followed by short differential histories between equivalent configurations.

use crate::engine::{classify_panic, config, rng_for, take_panic, Found, WorkerArgs, WorkerResult};
use crate::exec::Violation;
use crate::subject::{Subject, SyncSubject, UnsyncSubject};
use crate::track::{Reg, VBuild, TK, TV};
use crate::types::*;
use proptest::prelude::*;
use proptest::test_runner::{TestCaseError, TestError, TestRunner};
use serde::{Deserialize, Serialize};
use std::cell::RefCell;
use std::collections::{BTreeMap, BTreeSet};
use std::panic::{catch_unwind, AssertUnwindSafe};
use std::time::Duration;

pub const THOUSAND_YEARS_S: u64 = 1000 * 365 * 24 * 3600;

#[derive(Clone, Copy, Debug, PartialEq, Eq, Hash, Serialize, Deserialize)]
pub enum WeigherSel {
    One,
    Value,
}

#[derive(Clone, Copy, Debug, PartialEq, Eq, Hash, Serialize, Deserialize)]
pub enum Call {
    MaxCapacity(u64),
    InitialCapacity(usize),
    Weigher(WeigherSel),
    /// (seconds, nanoseconds)
    Ttl(u64, u32),
    Tti(u64, u32),
}

#[derive(Clone, Copy, Debug, PartialEq, Eq, Hash, Serialize, Deserialize)]
pub enum Ctor {
    /// Cache::builder()
    Builder,
    /// CacheBuilder::new(n)
    BuilderNew(u64),
    /// Cache::new(n) (no further calls possible)
    CacheNew(u64),
}

#[derive(Clone, Debug, PartialEq, Eq, Hash, Serialize, Deserialize)]
pub struct CfgCase {
    pub kind: Kind,
    pub ctor: Ctor,
    pub calls: Vec<Call>,
    /// None: build() with the default RandomState; Some: build_with_hasher
    pub hasher: Option<HasherKind>,
    pub ops: Vec<Op>,
    pub nkeys: u32,
}

impl CfgCase {
    pub fn hash64(&self) -> u64 {
        use std::hash::{Hash, Hasher};
        let mut h = std::collections::hash_map::DefaultHasher::new();
        self.hash(&mut h);
        h.finish()
    }
}

#[derive(Clone, Debug, Default, PartialEq)]
struct Expect {
    cap: Option<u64>,
    ttl: Option<Duration>,
    tti: Option<Duration>,
    init: Option<usize>,
    weigher: Option<WeigherSel>,
}

fn expect_of(ctor: Ctor, calls: &[Call]) -> Expect {
    let mut e = Expect::default();
    match ctor {
        Ctor::Builder => {}
        Ctor::BuilderNew(n) | Ctor::CacheNew(n) => e.cap = Some(n),
    }
    for c in calls {
        match *c {
            Call::MaxCapacity(n) => e.cap = Some(n),
            Call::InitialCapacity(n) => e.init = Some(n),
            Call::Weigher(w) => e.weigher = Some(w),
            Call::Ttl(s, n) => e.ttl = Some(Duration::new(s, n)),
            Call::Tti(s, n) => e.tti = Some(Duration::new(s, n)),
        }
    }
    e
}

enum Built {
    Ok(Box<dyn Subject>),
    Panicked(String),
}

fn build(kind: Kind, ctor: Ctor, calls: &[Call], hasher: Option<HasherKind>, reg: &std::sync::Arc<Reg>) -> Built {
    let r = catch_unwind(AssertUnwindSafe(|| -> Box<dyn Subject> {
        match kind {
            Kind::Unsync => {
                use mini_moka::unsync::{Cache, CacheBuilder};
                if let Ctor::CacheNew(n) = ctor {
                    return Box::new(UnsyncSubject::from_cache(Cache::<TK, TV>::new(n), reg));
                }
                let mut b = match ctor {
                    Ctor::BuilderNew(n) => CacheBuilder::new(n),
                    _ => Cache::<TK, TV>::builder(),
                };
                for c in calls {
                    b = match *c {
                        Call::MaxCapacity(n) => b.max_capacity(n),
                        Call::InitialCapacity(n) => b.initial_capacity(n),
                        Call::Weigher(WeigherSel::One) => b.weigher(|_k: &TK, _v: &TV| 1),
                        Call::Weigher(WeigherSel::Value) => b.weigher(|_k: &TK, v: &TV| v.w),
                        Call::Ttl(s, n) => b.time_to_live(Duration::new(s, n)),
                        Call::Tti(s, n) => b.time_to_idle(Duration::new(s, n)),
                    };
                }
                match hasher {
                    Some(h) => Box::new(UnsyncSubject::from_cache(b.build_with_hasher(VBuild { kind: h }), reg)),
                    None => Box::new(UnsyncSubject::from_cache(b.build(), reg)),
                }
            }
            Kind::Sync => {
                use mini_moka::sync::{Cache, CacheBuilder};
                if let Ctor::CacheNew(n) = ctor {
                    return Box::new(SyncSubject::from_cache(Cache::<TK, TV>::new(n), reg));
                }
                let mut b = match ctor {
                    Ctor::BuilderNew(n) => CacheBuilder::new(n),
                    _ => Cache::<TK, TV>::builder(),
                };
                for c in calls {
                    b = match *c {
                        Call::MaxCapacity(n) => b.max_capacity(n),
                        Call::InitialCapacity(n) => b.initial_capacity(n),
                        Call::Weigher(WeigherSel::One) => b.weigher(|_k: &TK, _v: &TV| 1),
                        Call::Weigher(WeigherSel::Value) => b.weigher(|_k: &TK, v: &TV| v.w),
                        Call::Ttl(s, n) => b.time_to_live(Duration::new(s, n)),
                        Call::Tti(s, n) => b.time_to_idle(Duration::new(s, n)),
                    };
                }
                match hasher {
                    Some(h) => Box::new(SyncSubject::from_cache(b.build_with_hasher(VBuild { kind: h }), reg)),
                    None => Box::new(SyncSubject::from_cache(b.build(), reg)),
                }
            }
        }
    }));
    match r {
        Ok(s) => Built::Ok(s),
        Err(_) => {
            let (msg, loc) = take_panic();
            Built::Panicked(format!("{msg} @ {loc}"))
        }
    }
}

/// Observable trace of a short history (no model: used differentially).
fn observe(sub: &mut Box<dyn Subject>, ops: &[Op], sync: bool) -> Vec<String> {
    let mut out = Vec::new();
    let mut seq = 0u32;
    for op in ops {
        match op {
            Op::Insert { k, w } => {
                sub.insert(*k, seq, *w);
                seq += 1;
                if sync {
                    sub.sync();
                }
            }
            Op::Get { k } => {
                out.push(format!("get({k})={:?}", sub.get(*k).map(|x| x.0)));
                if sync {
                    sub.sync();
                }
            }
            Op::Contains { k } => out.push(format!("contains({k})={}", sub.contains(*k))),
            Op::Iter => {
                let mut it = sub.iter();
                it.sort();
                out.push(format!("iter={:?}", it.iter().map(|x| (x.0, x.1)).collect::<Vec<_>>()));
            }
            Op::Invalidate { k } => {
                sub.invalidate(*k);
                if sync {
                    sub.sync();
                }
            }
            Op::InvalidateAll => sub.invalidate_all(),
            Op::Advance { ns } => sub.advance(*ns),
            Op::Counters => {
                if sync {
                    sub.sync();
                }
                out.push(format!("counters={},{}", sub.entry_count(), sub.weighted_size()));
            }
            _ => {}
        }
    }
    if sync {
        sub.sync();
    }
    let mut it = sub.iter();
    it.sort();
    out.push(format!("final_iter={:?}", it.iter().map(|x| (x.0, x.1)).collect::<Vec<_>>()));
    out.push(format!("final_counters={},{}", sub.entry_count(), sub.weighted_size()));
    out
}

#[derive(Default, Debug, Clone)]
pub struct CStats {
    pub knobs_set: usize,
    pub boundary: bool,
    pub panicked: bool,
    pub differential_with_eviction: bool,
    pub differentials: u32,
}

macro_rules! v17 {
    ($($arg:tt)*) => {
        return Err(Violation { prop: "C17", step: 0, msg: format!($($arg)*) })
    };
}

fn is_boundary(c: &Call) -> bool {
    match *c {
        Call::MaxCapacity(n) => n == 0 || n == u64::MAX,
        Call::InitialCapacity(n) => n == 0,
        Call::Ttl(s, n) | Call::Tti(s, n) => (s == THOUSAND_YEARS_S && n <= 1) || (s == THOUSAND_YEARS_S - 1) || (s == 0 && n == 0),
        _ => false,
    }
}

pub fn run_cfg_case(case: &CfgCase) -> (Option<Violation>, CStats) {
    let mut st = CStats::default();
    let r = run_inner(case, &mut st);
    (r.err(), st)
}

fn run_inner(case: &CfgCase, st: &mut CStats) -> Result<(), Violation> {
    let calls: &[Call] = if matches!(case.ctor, Ctor::CacheNew(_)) { &[] } else { &case.calls };
    let hasher = if matches!(case.ctor, Ctor::CacheNew(_)) { None } else { case.hasher };
    let e = expect_of(case.ctor, calls);
    st.knobs_set = [e.cap.is_some(), e.ttl.is_some(), e.tti.is_some(), e.init.is_some(), e.weigher.is_some()].iter().filter(|b| **b).count();
    st.boundary = calls.iter().any(is_boundary) || matches!(case.ctor, Ctor::BuilderNew(0) | Ctor::CacheNew(0));
    let max = Duration::from_secs(THOUSAND_YEARS_S);
    let ttl_too_long = e.ttl.map_or(false, |d| d > max);
    let tti_too_long = e.tti.map_or(false, |d| d > max);
    let sync = case.kind == Kind::Sync;

    let reg = Reg::new();
    let built = build(case.kind, case.ctor, calls, hasher, &reg);
    let mut sub = match built {
        Built::Panicked(msg) => {
            st.panicked = true;
            if !(ttl_too_long || tti_too_long) {
                v17!("build panicked although neither duration exceeds 1000 years (ttl {:?}, tti {:?}): {msg}", e.ttl, e.tti);
            }
            let want = if ttl_too_long { "time_to_live is longer than 1000 years" } else { "time_to_idle is longer than 1000 years" };
            if !msg.contains(want) {
                v17!("build panicked with `{msg}` instead of the documented `{want}`");
            }
            return Ok(());
        }
        Built::Ok(s) => {
            if ttl_too_long || tti_too_long {
                v17!("build did not panic although ttl {:?} / tti {:?} exceeds 1000 years", e.ttl, e.tti);
            }
            s
        }
    };

    // ---- policy() reports exactly what was given ----
    let (pc, pl, pi) = sub.policy();
    if pc != e.cap {
        v17!("policy().max_capacity() = {pc:?} but the cache was built with {:?} (ctor {:?}, calls {:?})", e.cap, case.ctor, calls);
    }
    if pl != e.ttl {
        v17!("policy().time_to_live() = {pl:?} but the cache was built with {:?} (calls {:?})", e.ttl, calls);
    }
    if pi != e.tti {
        v17!("policy().time_to_idle() = {pi:?} but the cache was built with {:?} (calls {:?})", e.tti, calls);
    }

    // ---- behaviour of this configuration on a short history ----
    // expiry is kept out of these clauses: durations are either unset or far away
    let far = |d: Option<Duration>| d.map_or(true, |d| d >= Duration::from_secs(3600));
    let no_expiry_interference = far(e.ttl) && far(e.tti);
    let ops: Vec<Op> = case.ops.iter().filter(|o| !matches!(o, Op::Advance { .. })).cloned().collect();
    if no_expiry_interference {
        // (d) without max_capacity nothing is ever evicted for size
        // (e) without a weigher every entry weighs 1
        let mut latest: BTreeMap<u32, u32> = BTreeMap::new();
        let mut seq = 0u32;
        let mut invalidated_all = false;
        for op in &ops {
            match op {
                Op::Insert { k, w } => {
                    sub.insert(*k, seq, *w);
                    latest.insert(*k, seq);
                    seq += 1;
                }
                Op::Get { k } => {
                    let r = sub.get(*k).map(|x| x.0);
                    if e.cap.is_none() && !invalidated_all && r != latest.get(k).copied() {
                        v17!("no max_capacity was configured, yet get(k{k}) = {r:?} while the latest insert is {:?}", latest.get(k));
                    }
                }
                Op::Invalidate { k } => {
                    sub.invalidate(*k);
                    latest.remove(k);
                }
                Op::InvalidateAll => {
                    sub.invalidate_all();
                    if sync {
                        invalidated_all = true; // same-tick entries may survive: not modelled here
                    } else {
                        latest.clear();
                    }
                }
                _ => {}
            }
        }
        sub.sync();
        let ec = sub.entry_count();
        let ws = sub.weighted_size();
        if e.cap.is_none() && !invalidated_all {
            let mut it: Vec<(u32, u32)> = sub.iter().iter().map(|x| (x.0, x.1)).collect();
            it.sort();
            let want: Vec<(u32, u32)> = latest.iter().map(|(k, v)| (*k, *v)).collect();
            if it != want {
                v17!("no max_capacity was configured, yet iteration yields {it:?} instead of all live entries {want:?}");
            }
        }
        if e.weigher.is_none() && !invalidated_all && ws != ec {
            v17!("no weigher was configured, yet weighted_size() = {ws} differs from entry_count() = {ec}");
        }
        if let (Some(c), None) = (e.cap, e.weigher) {
            if !invalidated_all && ec > c {
                v17!("max_capacity {c} without weigher, yet {ec} entries are held after maintenance");
            }
        }
    }
    drop(sub);

    // ---- differential histories between equivalent configurations ----
    let det = hasher.is_some();
    let mut diff = |name: &str, ctor2: Ctor, calls2: Vec<Call>, hasher2: Option<HasherKind>, ops: &[Op], st: &mut CStats| -> Result<(), Violation> {
        let reg_a = Reg::new();
        let reg_b = Reg::new();
        let (a, b) = match (build(case.kind, case.ctor, calls, hasher, &reg_a), build(case.kind, ctor2, &calls2, hasher2, &reg_b)) {
            (Built::Ok(a), Built::Ok(b)) => (a, b),
            _ => v17!("{name}: the equivalent configuration could not be built"),
        };
        let (mut a, mut b) = (a, b);
        let ta = observe(&mut a, ops, sync);
        let tb = observe(&mut b, ops, sync);
        st.differentials += 1;
        if ta != tb {
            let i = ta.iter().zip(tb.iter()).position(|(x, y)| x != y).unwrap_or(0);
            v17!("{name}: equivalent configurations behave differently: `{}` vs `{}` (observation #{i}); calls {:?} vs {:?}", ta.get(i).cloned().unwrap_or_default(), tb.get(i).cloned().unwrap_or_default(), calls, calls2);
        }
        if let Some(c) = e.cap {
            let inserted: BTreeSet<u32> = ops.iter().filter_map(|o| if let Op::Insert { k, .. } = o { Some(*k) } else { None }).collect();
            if inserted.len() as u64 > c {
                st.differential_with_eviction = true;
            }
        }
        Ok(())
    };

    let with_adv: Vec<Op> = case.ops.clone();
    if det && no_expiry_interference {
        // initial_capacity has no observable effect
        let mut c2: Vec<Call> = calls.iter().filter(|c| !matches!(c, Call::InitialCapacity(_))).cloned().collect();
        if e.init.is_none() {
            c2.push(Call::InitialCapacity(1000));
        }
        diff("initial_capacity", case.ctor, c2, hasher, &with_adv, st)?;
        // no weigher == weigher that always returns 1 (capacities where both sketches have identical geometry)
        if e.cap.map_or(true, |c| c <= 128) && ops.len() < 1000 {
            if e.weigher.is_none() {
                let mut c2 = calls.to_vec();
                c2.push(Call::Weigher(WeigherSel::One));
                diff("default weight 1", case.ctor, c2, hasher, &with_adv, st)?;
            } else if e.weigher == Some(WeigherSel::One) {
                let c2: Vec<Call> = calls.iter().filter(|c| !matches!(c, Call::Weigher(_))).cloned().collect();
                diff("default weight 1", case.ctor, c2, hasher, &with_adv, st)?;
            }
        }
        // builder-new(n) == builder().max_capacity(n)
        if let Ctor::BuilderNew(n) = case.ctor {
            let mut c2 = vec![Call::MaxCapacity(n)];
            c2.extend(calls.iter().cloned());
            diff("CacheBuilder::new(n)", Ctor::Builder, c2, hasher, &with_adv, st)?;
        }
    }
    // new(n) == builder().max_capacity(n).build(): RandomState on both sides, so only
    // histories whose outcome cannot depend on hash values: capacity never binding, or 0
    if let Ctor::CacheNew(n) = case.ctor {
        let inserted: BTreeSet<u32> = case.ops.iter().filter_map(|o| if let Op::Insert { k, .. } = o { Some(*k) } else { None }).collect();
        if n == 0 || inserted.len() as u64 <= n {
            diff("Cache::new(n)", Ctor::Builder, vec![Call::MaxCapacity(n)], None, &with_adv, st)?;
        } else {
            // The capacity binds: which entries stay depends on the random hashes of both
            // caches (collisions in the popularity sketch, about 1e-7 per decision with these
            // few keys). A difference is reported only if it is systematic: four caches made
            // by new(n) agree with each other, four made by the builder agree with each
            // other, and the two groups differ.
            let c2 = vec![Call::MaxCapacity(n)];
            let mut ta: Vec<Vec<String>> = Vec::new();
            let mut tb: Vec<Vec<String>> = Vec::new();
            for _ in 0..4 {
                let (reg_a, reg_b) = (Reg::new(), Reg::new());
                if let (Built::Ok(mut a), Built::Ok(mut b)) = (build(case.kind, case.ctor, calls, None, &reg_a), build(case.kind, Ctor::Builder, &c2, None, &reg_b)) {
                    ta.push(observe(&mut a, &with_adv, sync));
                    tb.push(observe(&mut b, &with_adv, sync));
                }
            }
            st.differentials += 1;
            if ta.len() == 4 && ta.iter().all(|t| *t == ta[0]) && tb.iter().all(|t| *t == tb[0]) && ta[0] != tb[0] {
                let i = ta[0].iter().zip(tb[0].iter()).position(|(x, y)| x != y).unwrap_or(0);
                v17!("Cache::new({n}) and builder().max_capacity({n}).build() behave differently (four caches of each kind, each group unanimous): `{}` vs `{}` (observation #{i})", ta[0].get(i).cloned().unwrap_or_default(), tb[0].get(i).cloned().unwrap_or_default());
            }
            st.differential_with_eviction = true;
        }
    }
    Ok(())
}

// ---- generation --------------------------------------------------------------------

fn dur_strategy() -> BoxedStrategy<(u64, u32)> {
    prop_oneof![
        4 => prop_oneof![Just((0u64, 0u32)), Just((0, 1)), Just((1, 0)), Just((3600, 0)), Just((86_400 * 365, 0))],
        2 => Just((THOUSAND_YEARS_S, 0)),
        1 => Just((THOUSAND_YEARS_S - 1, 999_999_999)),
        2 => Just((THOUSAND_YEARS_S, 1)),
        1 => Just((THOUSAND_YEARS_S + 1, 0)),
        1 => Just((u64::MAX / 4, 0)),
        1 => (0u64..THOUSAND_YEARS_S * 2, 0u32..1_000_000_000),
    ]
    .boxed()
}

fn cap_strategy() -> BoxedStrategy<u64> {
    prop_oneof![
        3 => prop_oneof![Just(0u64), Just(1), Just(2), Just(3), Just(5), Just(8), Just(64), Just(128)],
        1 => Just(u64::MAX),
        1 => Just(u32::MAX as u64 + 1),
        1 => any::<u64>(),
    ]
    .boxed()
}

fn call_strategy() -> BoxedStrategy<Call> {
    prop_oneof![
        3 => cap_strategy().prop_map(Call::MaxCapacity),
        2 => prop_oneof![Just(0usize), Just(1), Just(1000), Just(65_536)].prop_map(Call::InitialCapacity),
        2 => prop_oneof![Just(WeigherSel::One), Just(WeigherSel::Value)].prop_map(Call::Weigher),
        2 => dur_strategy().prop_map(|(s, n)| Call::Ttl(s, n)),
        2 => dur_strategy().prop_map(|(s, n)| Call::Tti(s, n)),
    ]
    .boxed()
}

fn op_strategy(nkeys: u32) -> BoxedStrategy<Op> {
    prop_oneof![
        8 => (0..nkeys, 0u32..4).prop_map(|(k, w)| Op::Insert { k, w }),
        6 => (0..nkeys).prop_map(|k| Op::Get { k }),
        2 => (0..nkeys).prop_map(|k| Op::Contains { k }),
        1 => Just(Op::Iter),
        2 => (0..nkeys).prop_map(|k| Op::Invalidate { k }),
        1 => Just(Op::InvalidateAll),
        1 => prop_oneof![Just(1u64), Just(MS), Just(SEC)].prop_map(|ns| Op::Advance { ns }),
        1 => Just(Op::Counters),
    ]
    .boxed()
}

pub fn cfg_strategy() -> BoxedStrategy<CfgCase> {
    (any::<bool>(), 0u8..10, cap_strategy(), proptest::collection::vec(call_strategy(), 0..6), 0u8..5, 1u32..10)
        .prop_flat_map(|(sync, ctor_sel, n, calls, hs, nkeys)| {
            let kind = if sync { Kind::Sync } else { Kind::Unsync };
            let ctor = match ctor_sel {
                0 | 1 => Ctor::CacheNew(n),
                2 | 3 => Ctor::BuilderNew(n),
                _ => Ctor::Builder,
            };
            let hasher = match hs {
                0 => None,
                1 | 2 => Some(HasherKind::Sip),
                3 => Some(HasherKind::Identity),
                _ => Some(HasherKind::Collide),
            };
            (Just(kind), Just(ctor), Just(calls), Just(hasher), proptest::collection::vec(op_strategy(nkeys), 0..40), Just(nkeys))
        })
        .prop_map(|(kind, ctor, calls, hasher, ops, nkeys)| CfgCase { kind, ctor, calls, hasher, ops, nkeys })
        .boxed()
}

pub const RULE: &str = "proptest over builder call lists (each knob absent / set / set several times, boundary capacities 0..u64::MAX, durations incl. exactly 1000 years and 1000 years + 1 ns, initial capacities 0..65536), the three constructors, build() and build_with_hasher(), both cache kinds; each followed by a short history and differential histories against the equivalent configuration; non-trivial = >= 2 knobs were set and >= 1 at a boundary value, or a differential history with more distinct keys than max_capacity (an eviction/rejection) agreed";

pub fn nontrivial(st: &CStats) -> bool {
    (st.knobs_set >= 2 && st.boundary) || st.differential_with_eviction
}

pub fn cfg_worker(a: &WorkerArgs) -> WorkerResult {
    let t0 = std::time::Instant::now();
    let strategy = cfg_strategy();
    let mut runner = TestRunner::new_with_rng(config(a.cases), rng_for(a.seed, "cfg", a.idx));

    struct Acc {
        evaluations: u64,
        hashes: BTreeSet<u64>,
        classes: BTreeMap<String, u64>,
        samples: Vec<CfgCase>,
        failed: bool,
    }
    let acc = RefCell::new(Acc { evaluations: 0, hashes: BTreeSet::new(), classes: BTreeMap::new(), samples: vec![], failed: false });
    let inflight = a.dir.join(format!("worker-{}.inflight.json", a.idx));
    let run_one = |case: &CfgCase| -> (Option<Violation>, CStats) {
        match catch_unwind(AssertUnwindSafe(|| run_cfg_case(case))) {
            Ok(x) => x,
            Err(_) => {
                let (msg, loc) = take_panic();
                let mut v = classify_panic(&msg, &loc);
                if v.prop == "C08" {
                    // a panic outside build() while exercising a configuration
                    v = Violation { prop: "C17", step: 0, msg: format!("a configuration that built fine panicked in use: {}", v.msg) };
                }
                (Some(v), CStats::default())
            }
        }
    };
    let mut res = WorkerResult::default();
    let result = runner.run(&strategy, |case| {
        if crate::budget::exhausted() && !acc.borrow().failed {
            crate::budget::skip();
            return Ok(());
        }
        let counting = !acc.borrow().failed;
        if counting {
            let _ = std::fs::write(&inflight, serde_json::to_vec(&case).unwrap());
        }
        let (v, st) = run_one(&case);
        let mut acc = acc.borrow_mut();
        if counting {
            acc.evaluations += 1;
            let mut cl = |k: &str, b: bool| {
                if b {
                    *acc.classes.entry(k.to_string()).or_insert(0) += 1;
                }
            };
            cl("cases_with_2_knobs", st.knobs_set >= 2);
            cl("cases_with_boundary_value", st.boundary);
            cl("cases_where_build_panicked_as_documented", st.panicked);
            cl("cases_with_differential", st.differentials > 0);
            cl("cases_with_differential_eviction", st.differential_with_eviction);
            cl(&format!("kind_{:?}", case.kind), true);
            if nontrivial(&st) && v.is_none() && acc.hashes.insert(case.hash64()) && acc.samples.len() < 3 {
                acc.samples.push(case.clone());
            }
        }
        match v {
            None => Ok(()),
            Some(v) => {
                acc.failed = true;
                Err(TestCaseError::fail(format!("{}: {}", v.prop, v.msg)))
            }
        }
    });
    let _ = std::fs::remove_file(&inflight);
    match result {
        Ok(()) => {}
        Err(TestError::Fail(reason, case)) => {
            if reason.message().starts_with("HARNESS") {
                res.error = Some(reason.message().to_string());
            } else {
                let (v, _) = run_one(&case);
                let msg = v.map(|v| v.msg).unwrap_or_else(|| "did not reproduce".into());
                res.violation = Some(Found { property: "C17".into(), message: format!("[C17] {msg}"), engine: "cfg".into(), case: serde_json::to_value(&case).unwrap(), trace: vec![], avoid: vec![] });
            }
        }
        Err(TestError::Abort(r)) => res.error = Some(format!("proptest aborted: {r}")),
    }
    let acc = acc.into_inner();
    res.evaluations = acc.evaluations;
    res.nontrivial_hashes = acc.hashes.iter().copied().collect();
    res.classes = acc.classes;
    for c in &acc.samples {
        res.samples.push(serde_json::to_value(c).unwrap());
    }
    res.wall_s = t0.elapsed().as_secs_f64();
    res
}

pub fn replay(found: &Found) -> Option<Violation> {
    let case: CfgCase = serde_json::from_value(found.case.clone()).expect("cfg case");
    match catch_unwind(AssertUnwindSafe(|| run_cfg_case(&case))) {
        Ok((v, _)) => v,
        Err(_) => {
            let (msg, loc) = take_panic();
            Some(Violation { prop: "C17", step: 0, msg: format!("panic: {msg} @ {loc}") })
        }
    }
}
