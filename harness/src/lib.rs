pub mod cfg_engine;
pub mod comp_deque;
pub mod comp_sketch;
pub mod engine;
pub mod exec;
pub mod fuzz_entry;
pub mod fuzzdec;
pub mod gen;
pub mod sched;
pub mod stress;
pub mod sched_hooks;
pub mod subject;
pub mod sup;
pub mod track;
pub mod budget;
pub mod types;

use std::collections::BTreeSet;
use std::path::PathBuf;

pub fn extra_engines(prop: &str, thorough: bool) -> Vec<sup::EnginePlan> {
    let mut v = Vec::new();
    let t = thorough;
    if matches!(prop, "C02" | "C03" | "C04" | "C05" | "C06" | "C07" | "C08" | "C09" | "C10" | "C11" | "C12" | "C16") {
        let wd = if prop == "C09" { if t { 600 } else { 120 } } else if t { 2400 } else { 600 };
        v.push(sup::EnginePlan { engine: "sched", workers: 16, cases_per_worker: if t { 12000 } else { 2500 }, timeout_s: wd });
    }
    if matches!(prop, "C02" | "C03" | "C04" | "C05" | "C07" | "C08" | "C10" | "C11" | "C16") {
        v.push(sup::EnginePlan { engine: "stress", workers: 4, cases_per_worker: 1, timeout_s: if t { 1800 } else { 600 } });
    }
    if t && matches!(prop, "C01" | "C03" | "C04" | "C05" | "C06" | "C07" | "C08" | "C10" | "C11" | "C12" | "C13" | "C14" | "C16") {
        v.push(sup::EnginePlan { engine: "fuzz", workers: 12, cases_per_worker: 20000, timeout_s: 2400 });
    }
    if prop == "C17" {
        v.push(sup::EnginePlan { engine: "cfg", workers: 16, cases_per_worker: if t { 6000 } else { 2000 }, timeout_s: if t { 1500 } else { 400 } });
    }
    if prop == "C08" {
        v.push(sup::EnginePlan { engine: "deque", workers: 16, cases_per_worker: if t { 20000 } else { 5000 }, timeout_s: if t { 1500 } else { 400 } });
    }
    if prop == "C14" || prop == "C08" {
        v.push(sup::EnginePlan { engine: "sketch", workers: 16, cases_per_worker: if t { 1500 } else { 300 }, timeout_s: if t { 1500 } else { 400 } });
    }
    v
}

pub fn rule_for(prop: &str, engine: &str) -> String {
    match engine {
        "seq" => {
            if prop == "C15" {
                "metamorphic pairs: base history h and h' = h plus extra contains_key / iter / Debug-formatting calls at generated positions; the results of all other operations and the final residents must be identical; non-trivial = >= 1 extra call was inserted and an eviction, rejection or expiry purge happened in the history; distinct = distinct case hash".to_string()
            } else {
                gen::rule_text(prop).to_string()
            }
        }
        "sketch" => comp_sketch::RULE.to_string(),
        "fuzz" => format!("coverage-guided libFuzzer campaigns (AddressSanitizer and debug assertions on) over byte strings decoded into the same Case values; the same interpreter and oracle run inside the target; fixed -runs per worker; non-trivial by the rule of the sequential/component engine; distinct counted per worker and summed ({})", gen::rule_text(prop)),
        "cfg" => cfg_engine::RULE.to_string(),
        "deque" => comp_deque::RULE.to_string(),
        "sched" => {
            if prop == "C12" {
                "programs of 2-3 real threads that only get / insert (and step the clock) on 2-4 resident keys after the periodic-sync window was left, with a generated list of preemptions, so that nothing is applied before the final sync(); the expected LRU order follows from the order in which reads were recorded and writes queued (scheduler trace); it is compared with the order in which popular newcomers then evict the residents; non-trivial = the comparison was conclusive and >= 1 generated preemption took place".to_string()
            } else {
                sched::RULE.to_string()
            }
        }
        "stress" => match prop {
            "C04" => return format!("{}; plus: {}; plus: {}", stress::RULE_C04, stress::RULE_MIXED, stress::RULE_REWEIGH),
            "C03" => stress::RULE_REWEIGH,
            "C10" => return format!("{}; plus: {}", stress::RULE_MIXED, stress::RULE_REWEIGH),
            "C16" => stress::RULE_C16,
            "C07" => stress::RULE_C07,
            "C05" => stress::RULE_C05,
            "C08" | "C11" => stress::RULE_MIXED,
            _ => stress::RULE_C02,
        }
        .to_string(),
        _ => String::new(),
    }
}

pub fn assumptions_for(prop: &str) -> Vec<String> {
    let mut v = vec![
        "exploration only: the property held on every generated case; nothing is proved about cases not generated".to_string(),
        "the cfg(mini_moka_verif) hooks (mock clock, read-only snapshots, walker, estimate accessor) report the cache's real state".to_string(),
        "key universes are smaller than one maintenance batch (100 / 500), except in explicit burst cases".to_string(),
    ];
    if matches!(prop, "C02" | "C07" | "C09" | "C16") {
        v.push("threads are serialised at source-level switch points; weak-memory reorderings and preemptions inside DashMap/crossbeam are not explored".to_string());
    }
    v
}

fn arg<'a>(args: &'a [String], name: &str) -> Option<&'a str> {
    args.iter().position(|a| a == name).and_then(|i| args.get(i + 1)).map(|s| s.as_str())
}

pub fn cli_main() {
    let args: Vec<String> = std::env::args().collect();
    let cmd = args.get(1).map(|s| s.as_str()).unwrap_or("");
    match cmd {
        "run" => {
            let prop = arg(&args, "--prop").expect("--prop").to_string();
            let thorough = arg(&args, "--tier") == Some("thorough");
            let seed = arg(&args, "--seed").and_then(|s| s.parse().ok()).or_else(|| std::env::var("VERIF_SEED").ok().and_then(|s| s.parse().ok())).unwrap_or(1);
            let code = sup::run(&sup::RunArgs { prop, thorough, seed });
            std::process::exit(code);
        }
        "worker" => {
            engine::install_panic_hook();
            sched_hooks::install();
            let prop = arg(&args, "--prop").expect("--prop").to_string();
            let eng = arg(&args, "--engine").unwrap_or("seq").to_string();
            let thorough = arg(&args, "--tier") == Some("thorough");
            let seed: u64 = arg(&args, "--seed").and_then(|s| s.parse().ok()).unwrap_or(1);
            let idx: u64 = arg(&args, "--idx").and_then(|s| s.parse().ok()).unwrap_or(0);
            let cases: u32 = arg(&args, "--cases").and_then(|s| s.parse().ok()).unwrap_or(100);
            let dir = PathBuf::from(arg(&args, "--dir").expect("--dir"));
            let open: BTreeSet<String> = arg(&args, "--open").unwrap_or("").split(',').filter(|s| !s.is_empty()).map(|s| s.to_string()).collect();
            let nworkers: u64 = arg(&args, "--nworkers").and_then(|s| s.parse().ok()).unwrap_or(1);
            budget::init(arg(&args, "--soft").and_then(|s| s.parse().ok()));
            let wa = engine::WorkerArgs { prop, thorough, seed, idx, nworkers, cases, dir: dir.clone(), open_findings: open };
            let mut res = match eng.as_str() {
                "seq" => engine::seq_worker(&wa),
                "sketch" => comp_sketch::sketch_worker(&wa),
                "cfg" => cfg_engine::cfg_worker(&wa),
                "deque" => comp_deque::deque_worker(&wa),
                "stress" => stress::stress_worker(&wa),
                "sched" => {
                    let r = sched::sched_worker(&wa);
                    sched_hooks::install();
                    r
                }
                other => panic!("unknown engine {other}"),
            };
            if budget::skipped() > 0 {
                res.classes.insert("generated_cases_not_run_because_the_time_budget_was_used_up".into(), budget::skipped());
            }
            engine::write_result(&dir, idx, &res);
        }
        "replay" => {
            // replay <file> : re-execute a saved violation without proptest
            engine::install_panic_hook();
            sched_hooks::install();
            let path = args.get(2).expect("replay <file>");
            let quiet = args.iter().any(|a| a == "--quiet");
            let found: engine::Found = serde_json::from_slice(&std::fs::read(path).expect("read replay")).expect("parse replay");
            let code = replay_found(&found, path, quiet);
            std::process::exit(code);
        }
        "replay-case" => {
            // replay-case <case.json> --prop P --engine E : used to confirm crashes / hangs
            engine::install_panic_hook();
            sched_hooks::install();
            let path = args.get(2).expect("replay-case <file>");
            let prop = arg(&args, "--prop").expect("--prop").to_string();
            let eng = arg(&args, "--engine").unwrap_or("seq").to_string();
            let case: serde_json::Value = serde_json::from_slice(&std::fs::read(path).expect("read")).expect("parse");
            let found = engine::Found { property: prop, message: String::new(), engine: eng, case, trace: vec![], avoid: vec![] };
            let code = replay_found(&found, path, false);
            std::process::exit(code);
        }
        _ => {
            eprintln!("usage: mmv run --prop <ID> --tier quick|thorough [--seed N] | replay <file>");
            std::process::exit(2);
        }
    }
}

fn replay_found(found: &engine::Found, path: &str, quiet: bool) -> i32 {
    match found.engine.as_str() {
        "seq" | "seq-pair" | "" => {
            let case: types::Case = serde_json::from_value(found.case.clone()).expect("case");
            // replays are strict: no known finding is avoided
            let (ran, _) = engine::rerun_with_trace(&found.property, &case, found.avoid.iter().any(|a| a == "S6"));
            if !quiet {
                for l in &ran.trace {
                    println!("    {l}");
                }
            }
            match ran.violation {
                Some(v) if v.prop == found.property => {
                    println!("[{} at step {}] {}", v.prop, v.step, v.msg);
                    println!("VIOLATION property={} replay={}", found.property, path);
                    1
                }
                Some(v) => {
                    println!("note: replay met a violation of another property: [{}] {}", v.prop, v.msg);
                    0
                }
                None => 0,
            }
        }
        "sketch" => report(comp_sketch::replay(found), found, path),
        "cfg" => report(cfg_engine::replay(found), found, path),
        "deque" => report(comp_deque::replay(found), found, path),
        "sched" => report(sched::replay(found, !quiet), found, path),
        "stress" => report(stress::replay(found), found, path),
        other => {
            eprintln!("unknown engine {other}");
            2
        }
    }
}

fn report(v: Option<exec::Violation>, found: &engine::Found, path: &str) -> i32 {
    match v {
        Some(v) if v.prop == found.property => {
            println!("[{} at step {}] {}", v.prop, v.step, v.msg);
            println!("VIOLATION property={} replay={}", found.property, path);
            1
        }
        Some(v) => {
            println!("note: replay met a violation of another property: [{}] {}", v.prop, v.msg);
            0
        }
        None => 0,
    }
}
