//! SCHED engine: small multi-threaded programs on the concurrent cache where the
//! *schedule* is part of the generated input. Program threads are real OS threads;
//! a baton lets exactly one run; at every cfg-guarded switch point in the library
//! the running thread asks the scheduler who goes next. The decision sequence is
//! a generated list of preemptions (default: keep running the current thread),
//! so schedules are preemption-bounded by construction and shrinking removes
//! preemptions. The maintenance lock is modelled through `LockScope` events, so
//! a thread that wants it while a paused thread holds it is marked blocked.

use crate::engine::{classify_panic, config, rng_for, take_panic, Found, WorkerArgs, WorkerResult};
use crate::exec::Violation;
use crate::subject::{build_sync_cache, sync_snapshot, weight_of};
use crate::track::{Reg, VBuild, TK, TV};
use crate::types::*;
use mini_moka::sync::ConcurrentCacheExt;
use mini_moka::verif::site;
use proptest::prelude::*;
use proptest::test_runner::{TestCaseError, TestError, TestRunner};
use serde::{Deserialize, Serialize};
use std::cell::RefCell;
use std::collections::{BTreeMap, BTreeSet, HashMap};
use std::panic::{catch_unwind, AssertUnwindSafe};
use std::sync::atomic::{AtomicU32, AtomicU64, Ordering};
use std::sync::{Arc, Condvar, Mutex};
use std::time::Duration;

type Cache = mini_moka::sync::Cache<TK, TV, VBuild>;

#[derive(Clone, Debug, PartialEq, Eq, Hash, Serialize, Deserialize)]
pub enum TOp {
    Insert { k: u32, w: u32 },
    Get { k: u32 },
    Contains { k: u32 },
    Invalidate { k: u32 },
    InvalidateAll,
    Sync,
    Advance { ns: u64 },
    /// n inserts of fresh keys in a row (to fill the write queue)
    Fill { n: u32 },
    /// n gets of one key in a row (to fill the read queue while somebody else is inside a
    /// maintenance run)
    Gets { k: u32, n: u32 },
}

#[derive(Clone, Debug, PartialEq, Eq, Hash, Serialize, Deserialize)]
pub struct SchedCase {
    pub cfg: Cfg,
    /// executed sequentially (with a final sync) before the threads start
    pub init: Vec<TOp>,
    pub threads: Vec<Vec<TOp>>,
    /// (global step index, choice among the other runnable threads)
    pub preempt: Vec<(u32, u8)>,
    pub first: u8,
    /// how many consecutive full-queue retries a thread makes before the scheduler
    /// lets another thread run (0: yield at once)
    #[serde(default)]
    pub patience: u32,
}

impl SchedCase {
    pub fn hash64(&self) -> u64 {
        use std::hash::{Hash, Hasher};
        let mut h = std::collections::hash_map::DefaultHasher::new();
        self.hash(&mut h);
        h.finish()
    }
}

const OP_START: u16 = 100;
const STEP_BUDGET: u32 = 60_000;
/// consecutive full-queue retries of one thread while nobody else can run
const SPIN_BUDGET: u32 = 1_500;

struct AbortCase;

#[derive(Default)]
struct St {
    current: usize,
    started: bool,
    finished: Vec<bool>,
    blocked: Vec<Option<u16>>,
    lock_owner: HashMap<u16, usize>,
    step: u32,
    preempt: Vec<(u32, u8)>,
    used_preemptions: u32,
    abort: Option<(&'static str, String)>,
    in_sync: Vec<bool>,
    overlapping_sync_territory: bool,
    forced_switches: u32,
    retry_yields: u32,
    events: Vec<(u32, usize, u16)>,
    trace_events: bool,
    max_map_len: usize,
    lonely_spins: u32,
    patience: u32,
    patience_left: u32,
    /// (order, thread, site): the moment a thread *left* a send-type switch point,
    /// i.e. the moment its operation was actually put into the queue
    departures: Vec<(u32, usize, u16)>,
    /// per thread: the clock value its current operation read (at the switch point that
    /// directly follows the library's clock read; no other thread can run in between)
    last_reading: Vec<Option<u64>>,
    /// the clock was advanced while some thread was inside a maintenance run
    advance_during_maintenance: bool,
}

struct Shared {
    m: Mutex<St>,
    cv: Condvar,
    /// number of entries physically in the map (C04 overshoot clause); safe to call
    /// at switch points because no paused thread holds a shard lock there
    probe: Option<Box<dyn Fn() -> usize + Send + Sync>>,
    /// structural walk of the cache (C08); called at operation boundaries while no
    /// thread holds the maintenance lock
    walk: Option<Box<dyn Fn() -> Result<(), String> + Send + Sync>>,
    /// the mock clock's current value in ns
    clock_ns: Arc<AtomicU64>,
}

impl Shared {
    fn lock(&self) -> std::sync::MutexGuard<'_, St> {
        self.m.lock().unwrap_or_else(|e| e.into_inner())
    }

    fn runnable(st: &St, t: usize) -> bool {
        !st.finished[t] && st.blocked[t].map_or(true, |id| !st.lock_owner.contains_key(&id))
    }

    fn others_runnable(st: &St, me: usize) -> Vec<usize> {
        let n = st.finished.len();
        (1..n).map(|d| (me + d) % n).filter(|t| Self::runnable(st, *t)).collect()
    }

    /// hand the baton to `t` and wait until it comes back
    fn switch_to<'a>(&'a self, mut st: std::sync::MutexGuard<'a, St>, me: usize, t: usize) -> std::sync::MutexGuard<'a, St> {
        st.current = t;
        self.cv.notify_all();
        while st.current != me && st.abort.is_none() {
            st = self.cv.wait(st).unwrap_or_else(|e| e.into_inner());
        }
        if st.abort.is_some() {
            drop(st);
            std::panic::resume_unwind(Box::new(AbortCase));
        }
        st
    }

    fn abort<'a>(&'a self, mut st: std::sync::MutexGuard<'a, St>, prop: &'static str, msg: String) -> ! {
        if st.abort.is_none() {
            st.abort = Some((prop, msg));
        }
        self.cv.notify_all();
        drop(st);
        std::panic::resume_unwind(Box::new(AbortCase));
    }

    fn wait_for_turn(&self, me: usize) {
        let mut st = self.lock();
        while !(st.started && st.current == me) && st.abort.is_none() {
            st = self.cv.wait(st).unwrap_or_else(|e| e.into_inner());
        }
        if st.abort.is_some() {
            drop(st);
            std::panic::resume_unwind(Box::new(AbortCase));
        }
    }

    fn on_site(&self, me: usize, s: u16) {
        self.on_site_inner(me, s);
        if s == site::READ_BEFORE_SEND || s == site::WRITE_BEFORE_SEND {
            let mut st = self.lock();
            let n = st.departures.len() as u32 + 1;
            st.departures.push((n, me, s));
        }
    }

    fn on_site_inner(&self, me: usize, s: u16) {
        let mut st = self.lock();
        if std::thread::panicking() {
            // called from a destructor (LockScope) while this thread unwinds: only
            // keep the lock bookkeeping right, never panic again
            if s & site::LOCK_RELEASE != 0 {
                let id = s & 0x0fff;
                if st.lock_owner.get(&id) == Some(&me) {
                    st.lock_owner.remove(&id);
                }
                st.in_sync[me] = false;
            }
            return;
        }
        if st.abort.is_some() {
            drop(st);
            std::panic::resume_unwind(Box::new(AbortCase));
        }
        st.step += 1;
        let step = st.step;
        if st.trace_events {
            st.events.push((step, me, s));
        }
        if s == OP_START {
            st.last_reading[me] = None;
        }
        if s == site::INSERT_AFTER_CLOCK || s == site::GET_AFTER_CLOCK || s == site::INVALIDATE_ALL_AFTER_CLOCK {
            st.last_reading[me] = Some(self.clock_ns.load(Ordering::SeqCst));
        }
        if s == OP_START || s == site::WRITE_RETRY || s == site::WRITE_BEFORE_SEND {
            if let Some(p) = &self.probe {
                let n = p();
                if n > st.max_map_len {
                    st.max_map_len = n;
                }
            }
        }
        if s == OP_START && st.lock_owner.is_empty() {
            if let Some(w) = &self.walk {
                if let Err(e) = w() {
                    self.abort(st, "C08", format!("structural walk failed at an operation boundary (step {step}): {e}"));
                }
            }
        }
        if step > STEP_BUDGET {
            self.abort(st, "C09", format!("step budget of {STEP_BUDGET} switch points exceeded: some operation does not make progress (livelock)"));
        }
        if s & site::LOCK_ACQUIRE != 0 {
            let id = s & 0x0fff;
            loop {
                match st.lock_owner.get(&id).copied() {
                    None => {
                        st.lock_owner.insert(id, me);
                        st.blocked[me] = None;
                        break;
                    }
                    Some(o) if o == me => {
                        self.abort(st, "C09", format!("thread {me} takes the maintenance lock while it already holds it (self-deadlock)"));
                    }
                    Some(_) => {
                        st.blocked[me] = Some(id);
                        st.forced_switches += 1;
                        let others = Self::others_runnable(&st, me);
                        match others.first().copied() {
                            Some(t) => st = self.switch_to(st, me, t),
                            None => {
                                let who: Vec<String> = (0..st.finished.len()).map(|t| format!("t{t}:{}", if st.finished[t] { "finished".to_string() } else { format!("blocked on {:?}", st.blocked[t]) })).collect();
                                self.abort(st, "C09", format!("deadlock: no runnable thread ({})", who.join(", ")));
                            }
                        }
                    }
                }
            }
            if st.in_sync.iter().enumerate().any(|(t, b)| *b && t != me) {
                st.overlapping_sync_territory = true;
            }
            st.in_sync[me] = true;
            return;
        }
        if s & site::LOCK_RELEASE != 0 {
            let id = s & 0x0fff;
            if st.lock_owner.get(&id) == Some(&me) {
                st.lock_owner.remove(&id);
            }
            st.in_sync[me] = false;
            return;
        }
        if s == site::TRY_SYNC_START || s == site::SYNC_START {
            if st.in_sync.iter().enumerate().any(|(t, b)| *b && t != me) {
                st.overlapping_sync_territory = true;
            }
        }
        if s == site::WRITE_RETRY {
            // the caller is about to sleep and retry: yield to somebody else
            st.retry_yields += 1;
            let others = Self::others_runnable(&st, me);
            if !others.is_empty() && st.patience_left > 0 {
                // keep retrying: the other threads are simply not scheduled for a while
                st.patience_left -= 1;
                return;
            }
            if let Some(t) = others.first().copied() {
                st.lonely_spins = 0;
                st.patience_left = st.patience;
                let _st = self.switch_to(st, me, t);
            } else {
                st.lonely_spins += 1;
                if st.lonely_spins > SPIN_BUDGET {
                    self.abort(st, "C09", format!("thread {me} retried a full write queue {SPIN_BUDGET} times in a row while no other thread could run: the insert never performs the pending maintenance (livelock)"));
                }
            }
            return;
        }
        // a generated preemption at this step?
        if let Some(pos) = st.preempt.iter().position(|p| p.0 == step) {
            let choice = st.preempt[pos].1 as usize;
            let others = Self::others_runnable(&st, me);
            if !others.is_empty() {
                st.used_preemptions += 1;
                let t = others[choice % others.len()];
                let _st = self.switch_to(st, me, t);
            }
        }
    }

    fn on_finish(&self, me: usize) {
        let mut st = self.lock();
        st.finished[me] = true;
        st.in_sync[me] = false;
        // a finished thread cannot hold the lock (LockScope is dropped on unwind too)
        let owned: Vec<u16> = st.lock_owner.iter().filter(|(_, o)| **o == me).map(|(k, _)| *k).collect();
        for k in owned {
            st.lock_owner.remove(&k);
        }
        if st.abort.is_some() {
            self.cv.notify_all();
            return;
        }
        let n = st.finished.len();
        let next = (0..n).find(|t| Self::runnable(&st, *t));
        match next {
            Some(t) => {
                st.current = t;
                self.cv.notify_all();
            }
            None => {
                if st.finished.iter().any(|f| !*f) {
                    let who: Vec<String> = (0..n).map(|t| format!("t{t}:{}", if st.finished[t] { "finished".to_string() } else { format!("blocked on {:?}", st.blocked[t]) })).collect();
                    st.abort = Some(("C09", format!("deadlock: no runnable thread ({})", who.join(", "))));
                }
                st.current = usize::MAX;
                self.cv.notify_all();
            }
        }
    }
}

#[derive(Clone, Debug)]
pub struct Rec {
    pub thread: usize,
    pub idx: usize,
    pub op: TOp,
    pub start: u32,
    pub end: u32,
    pub clock_start: u64,
    pub clock_end: u64,
    /// get: Some(seq) / None; contains: Some(1)/None
    pub result: Option<u32>,
    /// insert: the value's sequence number
    pub wrote: Option<u32>,
    /// insert / get / invalidate_all: the clock value the operation read
    pub reading: Option<u64>,
}

#[derive(Default, Clone, Debug)]
pub struct SchedStats {
    pub steps: u32,
    pub used_preemptions: u32,
    pub shared_key_with_writer: bool,
    pub overlapping_sync: bool,
    pub forced_switches: u32,
    pub retry_yields: u32,
    pub write_queue_filled: bool,
    pub refill_checked: bool,
    pub max_map_len: usize,
    pub had_invalidation: bool,
    pub get_hits: u32,
    /// get hits for which the expiry oracle (C05/C06) could decide
    pub expiry_decided: u32,
    pub advance_during_maintenance: bool,
}

pub struct SchedRun {
    pub violation: Option<Violation>,
    pub stats: SchedStats,
    pub trace: Vec<String>,
    pub unused_preemption: bool,
}

fn tick(sh: &Shared) -> u32 {
    let mut st = sh.lock();
    st.step += 1;
    st.step
}

#[allow(clippy::too_many_arguments)]
fn exec_op(cache: &Cache, reg: &Arc<Reg>, clock: &mini_moka::verif::MockClock, clock_ns: &AtomicU64, seqs: &AtomicU32, fresh: &AtomicU32, op: &TOp) -> (Option<u32>, Option<u32>) {
    match op {
        TOp::Insert { k, w } => {
            let seq = seqs.fetch_add(1, Ordering::SeqCst);
            cache.insert(TK::new(*k, reg), TV::new(seq, *w, reg));
            (None, Some(seq))
        }
        TOp::Get { k } => (cache.get(&TK::new(*k, reg)).map(|v| v.seq), None),
        TOp::Contains { k } => (if cache.contains_key(&TK::new(*k, reg)) { Some(1) } else { None }, None),
        TOp::Invalidate { k } => {
            cache.invalidate(&TK::new(*k, reg));
            (None, None)
        }
        TOp::InvalidateAll => {
            cache.invalidate_all();
            (None, None)
        }
        TOp::Sync => {
            cache.sync();
            (None, None)
        }
        TOp::Advance { ns } => {
            clock.advance(Duration::from_nanos(*ns));
            clock_ns.fetch_add(*ns, Ordering::SeqCst);
            (None, None)
        }
        TOp::Gets { k, n } => {
            let mut last = None;
            for _ in 0..*n {
                last = cache.get(&TK::new(*k, reg)).map(|v| v.seq);
            }
            let _ = last;
            (None, None)
        }
        TOp::Fill { n } => {
            for _ in 0..*n {
                let k = fresh.fetch_add(1, Ordering::SeqCst);
                let seq = seqs.fetch_add(1, Ordering::SeqCst);
                cache.insert(TK::new(k, reg), TV::new(seq, 1, reg));
            }
            (None, None)
        }
    }
}

pub fn run_sched_case(case: &SchedCase, prop: &str, trace: bool) -> SchedRun {
    let reg = Reg::new();
    let cache = build_sync_cache(&case.cfg);
    let clock = cache.verif_set_clock();
    let clock_ns = Arc::new(AtomicU64::new(0));
    let seqs = Arc::new(AtomicU32::new(0));
    let fresh = Arc::new(AtomicU32::new(2_000_000));
    let mut recs: Vec<Rec> = Vec::new();
    let mut stats = SchedStats::default();
    let mut tr: Vec<String> = Vec::new();

    // sequential prefix (no callback installed: switch points are no-ops)
    crate::sched_hooks::uninstall();
    for (i, op) in case.init.iter().enumerate() {
        let c0 = clock_ns.load(Ordering::SeqCst);
        let (res, wrote) = exec_op(&cache, &reg, &clock, &clock_ns, &seqs, &fresh, op);
        recs.push(Rec { thread: usize::MAX, idx: i, op: op.clone(), start: 2 * i as u32 + 1, end: 2 * i as u32 + 2, clock_start: c0, clock_end: clock_ns.load(Ordering::SeqCst), result: res, wrote, reading: Some(c0) });
        if trace {
            tr.push(format!("init: {:?} -> {:?}{}", op, res, wrote.map(|s| format!(" (v{s})")).unwrap_or_default()));
        }
    }
    cache.sync();

    // logical times of the threaded phase come after those of the prefix
    let off = 2 * case.init.len() as u32 + 2;
    let n = case.threads.len();
    let sh = Arc::new(Shared {
        m: Mutex::new(St {
            current: case.first as usize % n.max(1),
            started: false,
            finished: vec![false; n],
            blocked: vec![None; n],
            preempt: case.preempt.clone(),
            patience: case.patience,
            patience_left: case.patience,
            in_sync: vec![false; n],
            last_reading: vec![None; n],
            trace_events: trace || prop == "C12",
            ..St::default()
        }),
        cv: Condvar::new(),
        clock_ns: Arc::clone(&clock_ns),
        walk: if prop == "C08" {
            let c = cache.clone();
            Some(Box::new(move || c.verif_walk(false)))
        } else {
            None
        },
        probe: if prop == "C04" {
            let c = cache.clone();
            Some(Box::new(move || c.verif_map_len()))
        } else {
            None
        },
    });

    let mut handles = Vec::new();
    for (t, prog) in case.threads.iter().enumerate() {
        let sh = Arc::clone(&sh);
        let cache = cache.clone();
        let reg = Arc::clone(&reg);
        let clock = clock.clone();
        let clock_ns = Arc::clone(&clock_ns);
        let seqs = Arc::clone(&seqs);
        let fresh = Arc::clone(&fresh);
        let prog = prog.clone();
        handles.push(std::thread::spawn(move || {
            let sh2 = Arc::clone(&sh);
            mini_moka::verif::set_switch_callback(Some(Box::new(move |s: u16| sh2.on_site(t, s))));
            let mut my: Vec<Rec> = Vec::new();
            let mut lib_panic: Option<(String, String)> = None;
            let r = catch_unwind(AssertUnwindSafe(|| {
                sh.wait_for_turn(t);
                for (i, op) in prog.iter().enumerate() {
                    sh.on_site(t, OP_START);
                    if matches!(op, TOp::Advance { .. }) {
                        let mut st = sh.lock();
                        if st.in_sync.iter().any(|b| *b) {
                            st.advance_during_maintenance = true;
                        }
                    }
                    let start = tick(&sh);
                    let c0 = clock_ns.load(Ordering::SeqCst);
                    let (res, wrote) = exec_op(&cache, &reg, &clock, &clock_ns, &seqs, &fresh, op);
                    let end = tick(&sh);
                    let reading = sh.lock().last_reading[t];
                    my.push(Rec { thread: t, idx: i, op: op.clone(), start: start + off, end: end + off, clock_start: c0, clock_end: clock_ns.load(Ordering::SeqCst), result: res, wrote, reading });
                }
            }));
            if let Err(p) = r {
                if p.downcast_ref::<AbortCase>().is_none() {
                    lib_panic = Some(take_panic());
                }
            }
            mini_moka::verif::set_switch_callback(None);
            sh.on_finish(t);
            (my, lib_panic)
        }));
    }
    {
        let mut st = sh.lock();
        st.started = true;
        sh.cv.notify_all();
    }
    let mut lib_panics: Vec<(usize, String, String)> = Vec::new();
    for (t, h) in handles.into_iter().enumerate() {
        match h.join() {
            Ok((my, lp)) => {
                recs.extend(my);
                if let Some((m, l)) = lp {
                    lib_panics.push((t, m, l));
                }
            }
            Err(_) => lib_panics.push((t, "thread died outside catch_unwind".into(), String::new())),
        }
    }
    let departures = sh.lock().departures.clone();
    let (abort, events) = {
        let st = sh.lock();
        stats.steps = st.step;
        stats.used_preemptions = st.used_preemptions;
        stats.overlapping_sync = st.overlapping_sync_territory;
        stats.forced_switches = st.forced_switches;
        stats.retry_yields = st.retry_yields;
        stats.write_queue_filled = st.retry_yields > 0;
        stats.max_map_len = st.max_map_len;
        stats.advance_during_maintenance = st.advance_during_maintenance;
        (st.abort.clone(), st.events.clone())
    };
    let unused_preemption = case.preempt.iter().any(|p| p.0 > stats.steps);
    recs.sort_by_key(|r| (r.start, r.thread as u64, r.idx));
    if trace {
        for r in &recs {
            if r.thread != usize::MAX {
                tr.push(format!("[{}..{}] t{} {:?} -> {:?}{} (clock {})", r.start, r.end, r.thread, r.op, r.result, r.wrote.map(|s| format!(" wrote v{s}")).unwrap_or_default(), r.reading.map(fmt_ns).unwrap_or_else(|| fmt_ns(r.clock_start))));
            }
        }
        let sw: Vec<String> = events.windows(2).filter(|w| w[0].1 != w[1].1).map(|w| format!("step {}: t{} -> t{} (at site {})", w[1].0, w[0].1, w[1].1, w[0].2)).collect();
        tr.push(format!("thread switches: {}", sw.join("; ")));
    }

    macro_rules! mkret {
        ($v:expr) => {
            return SchedRun { violation: Some($v), stats: stats.clone(), trace: tr.clone(), unused_preemption }
        };
    }

    if let Some((t, m, l)) = lib_panics.first() {
        let mut v = classify_panic(m, l);
        v.msg = format!("thread {t}: {}", v.msg);
        mkret!(v);
    }
    if let Some((p, msg)) = abort {
        mkret!(Violation { prop: p, step: stats.steps as usize, msg });
    }

    // ---- history oracles -------------------------------------------------------
    // writes per key
    #[derive(Clone)]
    struct W {
        seq: Option<u32>, // None = invalidate
        start: u32,
        end: u32,
        thread: usize,
        idx: usize,
        clock_start: u64,
        clock_end: u64,
        reading: Option<u64>,
    }
    let mut writes: HashMap<u32, Vec<W>> = HashMap::new();
    let mut inval_all: Vec<W> = Vec::new();
    let mut touched: HashMap<u32, (BTreeSet<usize>, bool)> = HashMap::new();
    for r in &recs {
        let w = W { seq: r.wrote, start: r.start, end: r.end, thread: r.thread, idx: r.idx, clock_start: r.clock_start, clock_end: r.clock_end, reading: r.reading };
        match &r.op {
            TOp::Insert { k, .. } => {
                writes.entry(*k).or_default().push(w);
                let e = touched.entry(*k).or_default();
                e.0.insert(r.thread);
                e.1 = true;
            }
            TOp::Invalidate { k } => {
                writes.entry(*k).or_default().push(w);
                let e = touched.entry(*k).or_default();
                e.0.insert(r.thread);
                e.1 = true;
                stats.had_invalidation = true;
            }
            TOp::InvalidateAll => {
                inval_all.push(w);
                stats.had_invalidation = true;
            }
            TOp::Get { k } | TOp::Contains { k } => {
                touched.entry(*k).or_default().0.insert(r.thread);
            }
            _ => {}
        }
    }
    stats.shared_key_with_writer = touched.values().any(|(ts, w)| *w && ts.iter().filter(|t| **t != usize::MAX).count() >= 2);

    let seq_info: HashMap<u32, (u32, W)> = writes.iter().flat_map(|(k, ws)| ws.iter().filter_map(move |w| w.seq.map(|s| (s, (*k, w.clone()))))).collect();

    // per (reader thread, key, writer thread): last observed write index
    let mut last_seen: HashMap<(usize, u32, usize), (usize, u32)> = HashMap::new();
    for r in &recs {
        let TOp::Get { k } = &r.op else { continue };
        let Some(seq) = r.result else { continue };
        stats.get_hits += 1;
        let Some((wk, w)) = seq_info.get(&seq) else {
            if prop == "C02" {
                mkret!(Violation { prop: "C02", step: r.start as usize, msg: format!("t{} get(k{k}) returned v{seq}, which nobody wrote", r.thread) });
            }
            continue;
        };
        if prop == "C02" {
            if wk != k {
                mkret!(Violation { prop: "C02", step: r.start as usize, msg: format!("t{} get(k{k}) returned v{seq}, which was written for k{wk}", r.thread) });
            }
            if !(w.start < r.end) {
                mkret!(Violation { prop: "C02", step: r.start as usize, msg: format!("t{} get(k{k}) [{}..{}] returned v{seq} whose insert only started at {}", r.thread, r.start, r.end, w.start) });
            }
            // not superseded by a completed later write before the get began
            for w2 in writes.get(k).map(|v| v.as_slice()).unwrap_or(&[]) {
                if w2.seq == Some(seq) {
                    continue;
                }
                if w.end < w2.start && w2.end < r.start {
                    mkret!(Violation {
                        prop: "C02",
                        step: r.start as usize,
                        msg: format!(
                            "t{} get(k{k}) [{}..{}] returned v{seq} (insert by t{} [{}..{}]) although {} by t{} [{}..{}] had completed after that insert and before the get began",
                            r.thread, r.start, r.end, w.thread as isize, w.start, w.end,
                            w2.seq.map(|s| format!("insert v{s}")).unwrap_or_else(|| "invalidate".into()), w2.thread as isize, w2.start, w2.end
                        ),
                    });
                }
            }
            // never backwards in the order a single writer wrote them
            let key = (r.thread, *k, w.thread);
            if let Some((prev_idx, prev_seq)) = last_seen.get(&key) {
                if w.idx < *prev_idx {
                    mkret!(Violation { prop: "C02", step: r.start as usize, msg: format!("t{} observed k{k} going backwards: v{prev_seq} (op #{prev_idx} of t{}) and later v{seq} (op #{} of the same writer)", r.thread, w.thread as isize, w.idx) });
                }
            }
            last_seen.insert(key, (w.idx, seq));
        }
        if prop == "C05" {
            // the shown value carries the clock reading of its own insert (both are written
            // under the map's shard lock)
            if let (Some(d), Some(rr), Some(rw)) = (case.cfg.ttl, r.reading, w.reading) {
                if rr >= rw + d {
                    mkret!(Violation { prop: "C05", step: r.start as usize, msg: format!("t{} get(k{k}) [{}..{}] read the clock at {} and returned v{seq}, whose insert (t{} [{}..{}]) read the clock at {}: time_to_live {} had passed", r.thread, r.start, r.end, fmt_ns(rr), w.thread as isize, w.start, w.end, fmt_ns(rw), fmt_ns(d)) });
                }
                stats.expiry_decided += 1;
            }
        }
        if prop == "C06" {
            // most recent access: at most the latest reading of any insert / get of that key
            // which started before this get ended
            if let (Some(d), Some(rr)) = (case.cfg.tti, r.reading) {
                let mut acc_hi = 0u64;
                let mut known = true;
                for o in recs.iter().filter(|o| o.start < r.end && !(o.thread == r.thread && o.idx == r.idx)) {
                    let on_key = matches!(&o.op, TOp::Insert { k: k2, .. } | TOp::Get { k: k2 } if k2 == k);
                    if on_key {
                        match o.reading {
                            Some(x) => acc_hi = acc_hi.max(x),
                            None => known = false,
                        }
                    }
                }
                if known {
                    if rr >= acc_hi + d {
                        mkret!(Violation { prop: "C06", step: r.start as usize, msg: format!("t{} get(k{k}) [{}..{}] read the clock at {} and returned v{seq}, but no insert or get of k{k} that began before it read the clock later than {}: time_to_idle {} had passed", r.thread, r.start, r.end, fmt_ns(rr), fmt_ns(acc_hi), fmt_ns(d)) });
                    }
                    stats.expiry_decided += 1;
                }
            }
        }
        if prop == "C07" {
            // a get that starts after an invalidation ended must not see a targeted value
            for w2 in writes.get(k).map(|v| v.as_slice()).unwrap_or(&[]) {
                if w2.seq.is_none() && w.end < w2.start && w2.end < r.start {
                    mkret!(Violation { prop: "C07", step: r.start as usize, msg: format!("t{} get(k{k}) [{}..{}] returned v{seq} although invalidate(k{k}) by t{} [{}..{}] had returned before the get began and v{seq} was inserted before it ([{}..{}])", r.thread, r.start, r.end, w2.thread as isize, w2.start, w2.end, w.start, w.end) });
                }
            }
            // "inserted before the call" means, on the concurrent cache, "at a strictly earlier
            // clock reading": a value whose insert read the clock before invalidate_all read
            // it is targeted even if that insert returned only after the call (exact readings,
            // taken at the switch point that follows the library's clock read)
            for ia in &inval_all {
                if let (Some(rw), Some(ri)) = (w.reading, ia.reading) {
                    if rw < ri && ia.end < r.start {
                        mkret!(Violation { prop: "C07", step: r.start as usize, msg: format!("t{} get(k{k}) [{}..{}] returned v{seq}, whose insert (t{} [{}..{}]) read the clock at {}, although invalidate_all by t{} [{}..{}], which read the clock at the later reading {}, had returned before the get began", r.thread, r.start, r.end, w.thread as isize, w.start, w.end, fmt_ns(rw), ia.thread as isize, ia.start, ia.end, fmt_ns(ri)) });
                    }
                }
            }
            for ia in &inval_all {
                if w.end < ia.start && ia.end < r.start && w.clock_end < ia.clock_start {
                    mkret!(Violation { prop: "C07", step: r.start as usize, msg: format!("t{} get(k{k}) [{}..{}] returned v{seq} (inserted [{}..{}] at clock {}) although invalidate_all by t{} [{}..{}] at the later clock reading {} had returned before the get began", r.thread, r.start, r.end, w.start, w.end, fmt_ns(w.clock_end), ia.thread as isize, ia.start, ia.end, fmt_ns(ia.clock_start)) });
                }
            }
        }
    }

    // ---- after all threads stopped: quiescent-state oracles ----------------------
    cache.sync();
    let snap = sync_snapshot(&cache);
    if prop == "C09" && !snap.quiescent() {
        mkret!(Violation { prop: "C09", step: stats.steps as usize, msg: format!("after all threads finished and sync() returned, {} reads / {} writes are still queued, maintenance-running flag = {}", snap.read_q, snap.write_q, snap.sync_running) });
    }
    if prop == "C08" {
        if let Err(e) = cache.verif_walk(true) {
            mkret!(Violation { prop: "C08", step: stats.steps as usize, msg: format!("structural walk failed after the schedule: {e}") });
        }
        if reg.double_drop() {
            mkret!(Violation { prop: "C08", step: stats.steps as usize, msg: "a key or value object was dropped twice".into() });
        }
    }
    let phys_w: u64 = snap.entries.iter().map(|e| weight_of(&case.cfg, e.w_val) as u64).sum();
    if prop == "C10" {
        if snap.entry_count != snap.entries.len() as u64 || snap.weighted_size != phys_w {
            mkret!(Violation { prop: "C10", step: stats.steps as usize, msg: format!("after the schedule and sync(): entry_count()/weighted_size() = {}/{} but the cache physically holds {} entries weighing {} ({:?})", snap.entry_count, snap.weighted_size, snap.entries.len(), phys_w, snap.entries.iter().map(|e| (e.k, e.seq, e.w_val)).collect::<Vec<_>>()) });
        }
    }
    if prop == "C04" {
        if let (Some(c), WeigherKind::None) = (case.cfg.cap, case.cfg.weigher) {
            // (the size of the write queue is the implementation's choice: it is read, not assumed)
            let wq = cache.verif_write_queue_capacity();
            let bound = (c as usize).saturating_add(wq).saturating_add(case.threads.len());
            if stats.max_map_len > bound {
                mkret!(Violation { prop: "C04", step: stats.steps as usize, msg: format!("between maintenance runs the cache held {} entries: more than max_capacity {c} + the write queue ({wq}) + one per inserting thread ({}) = {bound}", stats.max_map_len, case.threads.len()) });
            }
        }
        if let Some(c) = case.cfg.cap {
            if phys_w > c {
                mkret!(Violation { prop: "C04", step: stats.steps as usize, msg: format!("after the schedule and sync() the resident weight {phys_w} exceeds max_capacity {c}") });
            }
        }
    }
    if prop == "C11" {
        let (lk, lv, nmap) = (reg.live_keys(), reg.live_vals(), snap.entries.len());
        if reg.double_drop() {
            mkret!(Violation { prop: "C11", step: stats.steps as usize, msg: "a key or value object was dropped twice".into() });
        }
        if lk != nmap || lv != nmap {
            mkret!(Violation { prop: "C11", step: stats.steps as usize, msg: format!("after the schedule and sync(): {nmap} entries are resident but {lk} key objects and {lv} value objects are alive") });
        }
    }
    if prop == "C02" {
        // the cache holds for each key nothing or a last value written to it
        for e in &snap.entries {
            // (keys written by Fill operations are not part of the per-key history)
            if e.k >= 2_000_000 {
                continue;
            }
            let Some((wk, w)) = seq_info.get(&e.seq) else {
                mkret!(Violation { prop: "C02", step: stats.steps as usize, msg: format!("after all threads stopped the cache holds v{} for k{}, which nobody wrote", e.seq, e.k) });
            };
            if *wk != e.k {
                mkret!(Violation { prop: "C02", step: stats.steps as usize, msg: format!("after all threads stopped the cache holds v{} under k{} but it was written for k{wk}", e.seq, e.k) });
            }
            for w2 in writes.get(&e.k).map(|v| v.as_slice()).unwrap_or(&[]) {
                if w2.seq != Some(e.seq) && w.end < w2.start {
                    mkret!(Violation { prop: "C02", step: stats.steps as usize, msg: format!("after all threads stopped the cache holds v{} for k{} (insert [{}..{}]) although the later {} [{}..{}] had completed", e.seq, e.k, w.start, w.end, w2.seq.map(|s| format!("insert v{s}")).unwrap_or_else(|| "invalidate".into()), w2.start, w2.end) });
                }
            }
        }
    }

    // ---- C12: victims follow the order in which maintenance applied reads and writes ---
    if prop == "C12" {
        let maintenance_ran = events.iter().any(|e| e.2 == site::TRY_SYNC_WON || e.2 == site::SYNC_START || e.2 & site::LOCK_ACQUIRE != 0);
        let only_get_insert = case.threads.iter().flatten().all(|o| matches!(o, TOp::Get { .. } | TOp::Insert { .. } | TOp::Advance { .. }));
        let nk = case.cfg.nkeys;
        let all_resident = (0..nk).all(|k| snap.has(k)) && snap.entries.len() as u32 == nk;
        if !maintenance_ran && only_get_insert && all_resident && case.cfg.cap == Some(nk as u64) {
            // nothing was applied before the final sync(): it applied every recorded
            // read in recording order, then every queued write in queueing order
            let ev_of = |r: &Rec, s: u16, last: bool| -> Option<u32> {
                let (lo, hi) = (r.start.saturating_sub(off), r.end.saturating_sub(off));
                let mut it = events.iter().filter(|e| e.1 == r.thread && e.2 == s && e.0 >= lo && e.0 <= hi).map(|e| e.0);
                if last { it.last() } else { it.next() }
            };
            let mut order: Vec<u32> = (0..nk).collect();
            let mut touch = |k: u32, order: &mut Vec<u32>| {
                if let Some(p) = order.iter().position(|x| *x == k) {
                    order.remove(p);
                    order.push(k);
                }
            };
            let mut reads: Vec<(u32, u32)> = Vec::new();
            let mut writes: Vec<(u32, u32, u32)> = Vec::new(); // (enqueue order, map step, key)
            let mut complete = true;
            // the i-th read (write) departure of a thread belongs to its i-th get (insert):
            // without a full queue every get / insert passes its send point exactly once
            let mut per_thread: HashMap<(usize, u16), Vec<u32>> = HashMap::new();
            for (n, t, s2) in &departures {
                per_thread.entry((*t, *s2)).or_default().push(*n);
            }
            let mut idx_r: HashMap<usize, usize> = HashMap::new();
            let mut idx_w: HashMap<usize, usize> = HashMap::new();
            let mut by_thread: Vec<&Rec> = recs.iter().filter(|r| r.thread != usize::MAX).collect();
            by_thread.sort_by_key(|r| (r.thread, r.idx));
            for r in by_thread {
                match &r.op {
                    TOp::Get { k } => {
                        let i = idx_r.entry(r.thread).or_insert(0);
                        let d = per_thread.get(&(r.thread, site::READ_BEFORE_SEND)).and_then(|v| v.get(*i)).copied();
                        *i += 1;
                        match d {
                            Some(n) => {
                                if r.result.is_some() {
                                    reads.push((n, *k))
                                }
                            }
                            None => complete = false,
                        }
                    }
                    TOp::Insert { k, .. } => {
                        let i = idx_w.entry(r.thread).or_insert(0);
                        let d = per_thread.get(&(r.thread, site::WRITE_BEFORE_SEND)).and_then(|v| v.get(*i)).copied();
                        *i += 1;
                        match (d, ev_of(r, site::INSERT_AFTER_MAP, false)) {
                            (Some(e), Some(m)) => writes.push((e, m, *k)),
                            _ => complete = false,
                        }
                    }
                    _ => {}
                }
            }
            // a retry (full queue) would break the one-departure-per-op mapping
            if stats.retry_yields > 0 {
                complete = false;
            }
            if complete {
                reads.sort();
                writes.sort();
                for (_, k) in &reads {
                    touch(*k, &mut order);
                }
                for (_, m, k) in &writes {
                    // only the write whose entry is the key's current one is applied
                    let current = writes.iter().filter(|w| w.2 == *k).map(|w| w.1).max() == Some(*m);
                    if current {
                        touch(*k, &mut order);
                    }
                }
                // reveal the cache's LRU order through the evictions of popular newcomers
                let mut victims: Vec<u32> = Vec::new();
                let mut conclusive = true;
                for j in 0..nk {
                    let f = 4_000_000 + j;
                    for _ in 0..16 {
                        let _ = cache.get(&TK::new(f, &reg));
                    }
                    cache.sync();
                    let before = sync_snapshot(&cache);
                    let seq = seqs.fetch_add(1, Ordering::SeqCst);
                    cache.insert(TK::new(f, &reg), TV::new(seq, 1, &reg));
                    cache.sync();
                    let after = sync_snapshot(&cache);
                    let gone: Vec<u32> = before.entries.iter().map(|e| e.k).filter(|k| !after.has(*k)).collect();
                    if !after.has(f) || gone.len() != 1 {
                        conclusive = false;
                        break;
                    }
                    victims.push(gone[0]);
                }
                if conclusive {
                    stats.refill_checked = true;
                    if victims != order {
                        mkret!(Violation { prop: "C12", step: stats.steps as usize, msg: format!("no maintenance ran while the threads were active, so the final sync() applied the recorded reads {:?} (in recording order) and then the queued writes {:?} (enqueue step, map-update step, key); that leaves the residents in LRU->MRU order {:?}, but admitting {} popular newcomers one by one evicted them in the order {:?}", reads, writes, order, nk, victims) });
                    }
                }
            }
        }
    }

    // ---- C03: nothing is lost below capacity (unbounded configurations) -----------
    // (C07 runs the same oracle for its "precise" clause: keys re-inserted after an
    // invalidation remain retrievable)
    if (prop == "C03" || prop == "C16" || (prop == "C07" && stats.had_invalidation)) && case.cfg.cap.is_none() {
        let prop_static: &'static str = if prop == "C07" { "C07" } else if prop == "C16" { "C16" } else { "C03" };
        let now_clock = clock_ns.load(Ordering::SeqCst);
        // C16: what an iteration yields after quiescence
        let iterated: Vec<(u32, u32)> = if prop == "C16" { cache.iter().map(|e| (e.key().k, e.value().seq)).collect() } else { Vec::new() };
        if prop == "C16" {
            let mut ks: Vec<u32> = iterated.iter().map(|x| x.0).collect();
            ks.sort();
            if ks.windows(2).any(|w| w[0] == w[1]) {
                mkret!(Violation { prop: "C16", step: stats.steps as usize, msg: format!("after quiescence an iteration yielded a key twice: {iterated:?}") });
            }
        }
        for (k, ws) in &writes {
            // the unique last write, if there is one that no other write overlaps or follows
            let maximal: Vec<&W> = ws.iter().filter(|w| !ws.iter().any(|w2| !std::ptr::eq(*w, w2) && w2.end > w.start && !(w2.end < w.start))).collect();
            let last = ws.iter().filter(|w| ws.iter().all(|w2| std::ptr::eq(*w, w2) || w2.end < w.start)).next();
            let _ = maximal;
            let Some(w) = last else { continue };
            let Some(seq) = w.seq else { continue };
            // not hidden by an invalidate_all that may have come after it, not expired
            if inval_all.iter().any(|ia| ia.end > w.start) {
                continue;
            }
            let age = now_clock - w.clock_start;
            let min_d = [case.cfg.ttl, case.cfg.tti].into_iter().flatten().min();
            // definitely live: the ttl counts from the insert's clock reading (the earliest
            // possible one if unknown); the tti from the latest known access: the insert or a
            // successful get that returned this very value (its recorded read was applied by
            // the sync() that preceded this check)
            // (a get extends the idle timer only once its recorded read has been applied: it
            // is credited only if the clock stood still during the get and was never advanced
            // while a maintenance run was in progress; then every expiry sweep that follows
            // the get runs at a single clock value after applying the recorded read)
            let last_access = if stats.advance_during_maintenance {
                w.clock_start
            } else {
                recs.iter().filter(|r| matches!(&r.op, TOp::Get { k: k2 } if k2 == k) && r.result == Some(seq) && r.clock_start == r.clock_end).filter_map(|r| r.reading).max().unwrap_or(0).max(w.clock_start)
            };
            let ttl_over = case.cfg.ttl.map_or(false, |d| age >= d);
            let tti_over = case.cfg.tti.map_or(false, |d| now_clock - last_access >= d);
            if ttl_over || tti_over {
                continue;
            }
            if last_access > w.clock_start && case.cfg.tti.is_some() {
                stats.expiry_decided += 1;
            }
            if prop == "C16" {
                if !iterated.iter().any(|x| x == &(*k, seq)) {
                    mkret!(Violation { prop: "C16", step: stats.steps as usize, msg: format!("no max_capacity is configured; insert(k{k}, v{seq}) [{}..{}] was the last write of that key, it is not invalidated and not expired (inserted at {}, last successful get at {}, now {}; ttl {:?}, tti {:?}), yet an iteration after quiescence yields {:?}", w.start, w.end, fmt_ns(w.clock_start), fmt_ns(last_access), fmt_ns(now_clock), case.cfg.ttl.map(fmt_ns), case.cfg.tti.map(fmt_ns), iterated) });
                }
                stats.refill_checked = true;
                continue;
            }
            if !snap.entries.iter().any(|e| e.k == *k && e.seq == seq) {
                mkret!(Violation { prop: prop_static, step: stats.steps as usize, msg: format!("no max_capacity is configured and insert(k{k}, v{seq}) [{}..{}] was the last write of that key (every other write of it had completed before it began), it is neither expired (inserted {} ago, last credited successful get at {}, now {}; ttl/tti minimum {:?}) nor invalidated, yet after quiescence the cache holds {:?} for that key", w.start, w.end, fmt_ns(age), fmt_ns(last_access), fmt_ns(now_clock), min_d.map(fmt_ns), snap.entries.iter().find(|e| e.k == *k).map(|e| e.seq)) });
            }
            stats.refill_checked = true;
        }
    }

    // ---- C03 (iv): sequential refill after the multi-threaded phase -------------
    if prop == "C03" {
        if let Some(c) = case.cfg.cap {
            let zero_expiry = case.cfg.ttl == Some(0) || case.cfg.tti == Some(0);
            if c <= 64 && !zero_expiry {
                for e in &snap.entries {
                    cache.invalidate(&TK::new(e.k, &reg));
                }
                cache.sync();
                let after = sync_snapshot(&cache);
                if !after.entries.is_empty() || after.weighted_size != 0 || after.entry_count != 0 {
                    // leftovers are C10's business; the refill below still has to succeed only if room is real
                }
                stats.refill_checked = true;
                for i in 0..c {
                    let k = 3_000_000 + i as u32;
                    let seq = seqs.fetch_add(1, Ordering::SeqCst);
                    cache.insert(TK::new(k, &reg), TV::new(seq, 1, &reg));
                    cache.sync();
                }
                let fin = sync_snapshot(&cache);
                let missing: Vec<u32> = (0..c).map(|i| 3_000_000 + i as u32).filter(|k| !fin.has(*k)).collect();
                if after.entries.is_empty() && !missing.is_empty() {
                    mkret!(Violation { prop: "C03", step: stats.steps as usize, msg: format!("after the multi-threaded phase quiesced and every entry was invalidated, a sequential refill of max_capacity = {c} fresh unit-weight keys lost {} of them (weighted_size() after drain = {}, entry_count() = {})", missing.len(), after.weighted_size, after.entry_count) });
                }
            }
        }
    }
    drop(cache);
    if prop == "C11" && (reg.live_keys() != 0 || reg.live_vals() != 0) {
        mkret!(Violation { prop: "C11", step: stats.steps as usize, msg: format!("after dropping the last handle {} key objects and {} value objects are still alive", reg.live_keys(), reg.live_vals()) });
    }
    SchedRun { violation: None, stats, trace: tr, unused_preemption }
}

pub fn run_guarded(case: &SchedCase, prop: &str, trace: bool) -> SchedRun {
    match catch_unwind(AssertUnwindSafe(|| run_sched_case(case, prop, trace))) {
        Ok(r) => r,
        Err(_) => {
            let (msg, loc) = take_panic();
            SchedRun { violation: Some(classify_panic(&msg, &loc)), stats: SchedStats::default(), trace: vec![], unused_preemption: false }
        }
    }
}

// ---- generation -----------------------------------------------------------------

fn top(nkeys: u32, fill: bool, expiry: bool, gets: bool) -> BoxedStrategy<TOp> {
    let mut v: Vec<(u32, BoxedStrategy<TOp>)> = vec![
        (30, (0..nkeys, 0u32..4).prop_map(|(k, w)| TOp::Insert { k, w }).boxed()),
        (26, (0..nkeys).prop_map(|k| TOp::Get { k }).boxed()),
        (4, (0..nkeys).prop_map(|k| TOp::Contains { k }).boxed()),
        (10, (0..nkeys).prop_map(|k| TOp::Invalidate { k }).boxed()),
        (5, Just(TOp::InvalidateAll).boxed()),
        (8, Just(TOp::Sync).boxed()),
        (if expiry { 16 } else { 8 }, prop_oneof![Just(1u64), Just(MS), Just(501 * MS), Just(SEC), Just(600 * MS), Just(400 * MS)].prop_map(|ns| TOp::Advance { ns }).boxed()),
    ];
    if fill {
        v.push((6, prop_oneof![Just(70u32), Just(400)].prop_map(|n| TOp::Fill { n }).boxed()));
    }
    if gets {
        v.push((6, (0..nkeys, prop_oneof![Just(70u32), Just(100), Just(130), Just(400)]).prop_map(|(k, n)| TOp::Gets { k, n }).boxed()));
    }
    proptest::strategy::Union::new_weighted(v).boxed()
}

/// C12: all keys resident, periodic-sync window left, threads only get / insert
/// (and step the clock by 1 ns), fewer operations than the queue flush point.
fn recency_strategy(thorough: bool) -> BoxedStrategy<SchedCase> {
    let max_pre = if thorough { 6usize } else { 4 };
    (2u32..5, 2usize..4, any::<u8>())
        .prop_flat_map(move |(nkeys, nthreads, first)| {
            let op = prop_oneof![
                5 => (0..nkeys).prop_map(|k| TOp::Get { k }),
                3 => (0..nkeys).prop_map(|k| TOp::Insert { k, w: 1 }),
                2 => Just(TOp::Advance { ns: 1 }),
            ];
            (
                Just(nkeys),
                proptest::collection::vec(proptest::collection::vec(op, 1..6), nthreads..=nthreads),
                proptest::collection::vec((0u32..65536, any::<u8>()), 1..=max_pre),
                Just(first),
            )
        })
        .prop_map(|(nkeys, threads, preempt, first)| {
            let cfg = Cfg { kind: Kind::Sync, cap: Some(nkeys as u64), weigher: WeigherKind::None, ttl: None, tti: None, hasher: HasherKind::Sip, init_cap: None, nkeys };
            let mut init: Vec<TOp> = (0..nkeys).map(|k| TOp::Insert { k, w: 1 }).collect();
            init.push(TOp::Sync);
            init.push(TOp::Advance { ns: 501 * MS });
            let total_ops: u32 = threads.iter().map(|t| t.len() as u32).sum();
            let est_len = 10 * total_ops + 4;
            let mut preempt: Vec<(u32, u8)> = preempt.into_iter().map(|(f, c)| (1 + ((f as u64 * est_len as u64) >> 16) as u32, c)).collect();
            preempt.sort();
            preempt.dedup_by_key(|p| p.0);
            SchedCase { cfg, init, threads, preempt, first, patience: 0 }
        })
        .boxed()
}

pub fn sched_strategy(prop: &str, thorough: bool) -> BoxedStrategy<SchedCase> {
    if prop == "C12" {
        return recency_strategy(thorough);
    }
    let fill = prop == "C09" || prop == "C04" || prop == "C02";
    let gets = prop == "C09" || prop == "C11" || prop == "C08";
    let expiry_prop: Option<&'static str> = match prop {
        "C05" => Some("C05"),
        "C06" => Some("C06"),
        "C16" => Some("C16"),
        _ => None,
    };
    let max_pre = if thorough { 8usize } else { 4 };
    (1u32..4, 2usize..5, any::<u8>(), any::<u8>(), any::<u8>(), any::<u8>(), any::<u8>())
        .prop_flat_map(move |(nkeys, nthreads, capsel, wsel, ttlsel, ttisel, first)| {
            let cap = [None, Some(1u64), Some(2), Some(3), Some(4), Some(2), None][capsel as usize % 7];
            let weigher = if wsel % 3 == 0 { WeigherKind::Value } else { WeigherKind::None };
            let durs = [None, None, None, Some(SEC), Some(600 * MS), Some(1u64), Some(0)];
            let mut ttl = durs[ttlsel as usize % durs.len()];
            let mut tti = durs[ttisel as usize % durs.len()];
            if expiry_prop == Some("C05") && ttl.is_none() {
                ttl = Some([SEC, 600 * MS, MS][ttlsel as usize % 3]);
            }
            if (expiry_prop == Some("C06") || expiry_prop == Some("C16")) && tti.is_none() && ttisel % 4 != 0 {
                tti = Some([SEC, 600 * MS, MS][ttisel as usize % 3]);
            }
            let cfg = Cfg { kind: Kind::Sync, cap, weigher, ttl, tti, hasher: HasherKind::Sip, init_cap: None, nkeys };
            let max_steps = 60 * nthreads as u32;
            (
                Just(cfg),
                proptest::collection::vec(top(nkeys, false, expiry_prop.is_some(), false), 0..4),
                proptest::collection::vec(proptest::collection::vec(top(nkeys, fill, expiry_prop.is_some(), gets), 1..7), nthreads..=nthreads),
                proptest::collection::vec((0u32..65536, any::<u8>()), 0..=max_pre),
                Just(first),
                Just(max_steps),
            )
        })
        .prop_map(move |(cfg, init, threads, preempt, first, _max_steps)| {
            // place the preemptions inside the expected length of the execution
            // (monotone in the generated fraction, so shrinking moves them earlier)
            let total_ops: u32 = threads.iter().map(|t| t.len() as u32).sum();
            let est_len = 14 * total_ops + 4;
            let mut preempt: Vec<(u32, u8)> = preempt.into_iter().map(|(f, c)| (1 + ((f as u64 * est_len as u64) >> 16) as u32, c)).collect();
            preempt.sort();
            preempt.dedup_by_key(|p| p.0);
            let has_fill = threads.iter().flatten().any(|o| matches!(o, TOp::Fill { .. }));
            let patience = if has_fill && first % 2 == 0 { 250 } else { 0 };
            SchedCase { cfg, init, threads, preempt, first, patience }
        })
        .boxed()
}

/// Fixed litmus programs, enumerated exhaustively for <= 2 preemptions.
fn litmus() -> Vec<(&'static str, SchedCase)> {
    let base = |cap: Option<u64>, ttl: Option<u64>| Cfg { kind: Kind::Sync, cap, weigher: WeigherKind::Value, ttl, tti: None, hasher: HasherKind::Sip, init_cap: None, nkeys: 2 };
    let ins = |k, w| TOp::Insert { k, w };
    let get = |k| TOp::Get { k };
    vec![
        ("insert || get", SchedCase { cfg: base(None, None), init: vec![ins(0, 1)], threads: vec![vec![ins(0, 1)], vec![get(0), get(0)]], preempt: vec![], first: 0, patience: 0 }),
        ("insert || insert || get", SchedCase { cfg: base(Some(4), None), init: vec![], threads: vec![vec![ins(0, 1)], vec![ins(0, 2)], vec![get(0)]], preempt: vec![], first: 0, patience: 0 }),
        ("insert || invalidate || get", SchedCase { cfg: base(None, None), init: vec![ins(0, 1)], threads: vec![vec![ins(0, 1)], vec![TOp::Invalidate { k: 0 }], vec![get(0)]], preempt: vec![], first: 0, patience: 0 }),
        ("insert || sync", SchedCase { cfg: base(Some(2), None), init: vec![ins(1, 1)], threads: vec![vec![ins(0, 1), ins(0, 2)], vec![TOp::Sync]], preempt: vec![], first: 0, patience: 0 }),
        ("update || sync || get", SchedCase { cfg: base(Some(3), None), init: vec![ins(0, 1)], threads: vec![vec![ins(0, 3)], vec![TOp::Sync], vec![get(0)]], preempt: vec![], first: 0, patience: 0 }),
        ("insert; advance; sync || invalidate_all; get", SchedCase { cfg: base(None, None), init: vec![], threads: vec![vec![ins(0, 1), TOp::Advance { ns: 1 }, TOp::Sync], vec![TOp::InvalidateAll, get(0), get(0)]], preempt: vec![], first: 0, patience: 0 }),
        ("get; advance || invalidate_all; sync; get", SchedCase { cfg: base(None, None), init: vec![ins(0, 1), TOp::Sync, TOp::Advance { ns: 1 }], threads: vec![vec![get(0), TOp::Advance { ns: 1 }], vec![TOp::InvalidateAll, TOp::Sync, get(0), get(0)]], preempt: vec![], first: 0, patience: 0 }),
        ("sync || invalidate; insert; get (old value at its ttl)", SchedCase { cfg: base(None, Some(SEC)), init: vec![ins(0, 1), TOp::Sync], threads: vec![vec![TOp::Sync], vec![TOp::Advance { ns: SEC }, TOp::Invalidate { k: 0 }, ins(0, 1), get(0)]], preempt: vec![], first: 0, patience: 0 }),
        ("sync || update; get (old value at its ttl)", SchedCase { cfg: base(Some(2), Some(SEC)), init: vec![ins(0, 1), ins(1, 1), TOp::Sync], threads: vec![vec![TOp::Sync], vec![TOp::Advance { ns: SEC }, ins(0, 1), get(0)]], preempt: vec![], first: 0, patience: 0 }),
        ("insert; insert || sync; sync (capacity 1)", SchedCase { cfg: base(Some(1), None), init: vec![], threads: vec![vec![ins(0, 1), ins(1, 1), get(1)], vec![TOp::Sync, TOp::Sync]], preempt: vec![], first: 0, patience: 0 }),
        ("update; invalidate || sync || get", SchedCase { cfg: base(Some(2), None), init: vec![ins(0, 1), TOp::Sync], threads: vec![vec![ins(0, 2), TOp::Invalidate { k: 0 }], vec![TOp::Sync], vec![get(0)]], preempt: vec![], first: 0, patience: 0 }),
        ("invalidate || re-insert; sync; get(c); insert(c, heavy); sync", SchedCase { cfg: base(Some(2), None), init: vec![ins(0, 1), TOp::Sync], threads: vec![vec![TOp::Invalidate { k: 0 }], vec![ins(0, 1), TOp::Sync, get(1), TOp::Sync, ins(1, 2), TOp::Sync, get(1)]], preempt: vec![], first: 0, patience: 0 }),
        ("invalidate || re-insert; get(c); insert(c, heavy) (no explicit sync)", SchedCase { cfg: base(Some(2), None), init: vec![ins(0, 1), TOp::Sync], threads: vec![vec![TOp::Invalidate { k: 0 }], vec![ins(0, 1), get(1), get(1), ins(1, 2), get(0), get(1)]], preempt: vec![], first: 0, patience: 0 }),
        ("sync || invalidate; insert; get (old value at its tti)", SchedCase { cfg: Cfg { tti: Some(SEC), ..base(None, None) }, init: vec![ins(0, 1), TOp::Sync], threads: vec![vec![TOp::Sync], vec![TOp::Advance { ns: SEC }, TOp::Invalidate { k: 0 }, ins(0, 1), get(0)]], preempt: vec![], first: 0, patience: 0 }),
        ("sync || invalidate_all; invalidate; insert; get", SchedCase { cfg: base(None, None), init: vec![ins(0, 1), TOp::Sync, TOp::Advance { ns: 1 }], threads: vec![vec![TOp::Sync], vec![TOp::InvalidateAll, TOp::Invalidate { k: 0 }, ins(0, 1), get(0)]], preempt: vec![], first: 0, patience: 0 }),
        ("insert; get || advance ttl; insert", SchedCase { cfg: base(None, Some(SEC)), init: vec![ins(0, 1), TOp::Sync], threads: vec![vec![ins(0, 1), get(0)], vec![TOp::Advance { ns: SEC }, ins(0, 1), get(0)]], preempt: vec![], first: 0, patience: 0 }),
        ("insert; get || advance tti; insert", SchedCase { cfg: Cfg { tti: Some(SEC), ..base(None, None) }, init: vec![ins(0, 1), TOp::Sync], threads: vec![vec![ins(0, 1), get(0)], vec![TOp::Advance { ns: SEC }, ins(0, 1), get(0)]], preempt: vec![], first: 0, patience: 0 }),
        ("get || advance; get; advance (tti, reads recorded out of order)", SchedCase { cfg: Cfg { tti: Some(SEC), ..base(None, None) }, init: vec![ins(0, 1), TOp::Sync, TOp::Advance { ns: 100 * MS }], threads: vec![vec![get(0)], vec![TOp::Advance { ns: 500 * MS }, get(0), TOp::Advance { ns: 600 * MS }]], preempt: vec![], first: 0, patience: 0 }),
        ("get || advance; get; advance; sync; get (tti)", SchedCase { cfg: Cfg { tti: Some(SEC), ..base(None, None) }, init: vec![ins(0, 1), TOp::Sync, TOp::Advance { ns: 100 * MS }], threads: vec![vec![get(0)], vec![TOp::Advance { ns: 500 * MS }, get(0), TOp::Advance { ns: 600 * MS }, TOp::Sync, get(0)]], preempt: vec![], first: 0, patience: 0 }),
        ("get(a) || advance; get(b); advance; sync; get(a) (tti, reads of two keys recorded out of order)", SchedCase { cfg: Cfg { tti: Some(SEC), ..base(None, None) }, init: vec![ins(0, 1), ins(1, 1), TOp::Sync, TOp::Advance { ns: 100 * MS }], threads: vec![vec![get(0)], vec![TOp::Advance { ns: 500 * MS }, get(1), TOp::Advance { ns: 600 * MS }, TOp::Sync, get(0), get(1)]], preempt: vec![], first: 0, patience: 0 }),
        ("insert; sync || 100 gets; insert (read queue beyond its flush point)", SchedCase { cfg: base(Some(2), None), init: vec![ins(0, 1), TOp::Sync], threads: vec![vec![ins(1, 1), TOp::Sync], vec![TOp::Gets { k: 0, n: 100 }, ins(0, 1)]], preempt: vec![], first: 0, patience: 0 }),
        ("insert; sync || 400 gets (read queue full)", SchedCase { cfg: base(Some(2), None), init: vec![ins(0, 1), TOp::Sync], threads: vec![vec![ins(1, 1), TOp::Sync], vec![TOp::Gets { k: 0, n: 400 }, get(0)]], preempt: vec![], first: 0, patience: 0 }),
        ("insert; sync || 400 inserts of fresh keys; update; get (write queue full)", SchedCase { cfg: base(None, None), init: vec![ins(0, 1), TOp::Sync], threads: vec![vec![ins(1, 1), TOp::Sync], vec![TOp::Fill { n: 400 }, ins(0, 2), get(0)]], preempt: vec![], first: 0, patience: 0 }),
        ("insert || exactly one write queue of inserts (the queue is full when the inserter's own maintenance pass ends)", SchedCase { cfg: base(None, None), init: vec![ins(0, 1), TOp::Sync], threads: vec![vec![ins(1, 1), get(1)], vec![TOp::Fill { n: 384 }]], preempt: vec![], first: 0, patience: 0 }),
        ("insert || fill the write queue; invalidate (an invalidation that meets a full write queue)", SchedCase { cfg: base(None, None), init: vec![ins(0, 1), TOp::Sync], threads: vec![vec![ins(1, 1), get(1)], vec![TOp::Fill { n: 384 }, TOp::Invalidate { k: 0 }, get(0)]], preempt: vec![], first: 0, patience: 0 }),
        ("growing update; sync || update of one resident || update of the other (all nodes dirty during the eviction pass)", SchedCase { cfg: base(Some(2), None), init: vec![ins(0, 1), ins(1, 1), TOp::Sync], threads: vec![vec![ins(1, 3), TOp::Sync], vec![ins(0, 1)], vec![ins(1, 3)]], preempt: vec![], first: 0, patience: 0 }),
        ("insert; get || advance; invalidate_all; insert; get (an insert that read the clock before invalidate_all lands after it)", SchedCase { cfg: base(None, None), init: vec![ins(0, 1), TOp::Sync], threads: vec![vec![ins(0, 1), get(0)], vec![TOp::Advance { ns: 1 }, TOp::InvalidateAll, ins(0, 1), get(0)]], preempt: vec![], first: 0, patience: 0 }),
        ("invalidate_all || invalidate_all (clock advancing)", SchedCase { cfg: base(None, None), init: vec![ins(0, 1), TOp::Advance { ns: 1 }], threads: vec![vec![TOp::InvalidateAll], vec![TOp::Advance { ns: 1 }, ins(1, 1), TOp::Advance { ns: 1 }, TOp::InvalidateAll, get(1)]], preempt: vec![], first: 0, patience: 0 }),
    ]
}

pub const RULE: &str = "bounded-exhaustive small scope (every 2-thread program with 1-2 ops per thread over an alphabet of 8 operations x 3 initial states x 2 configurations, every schedule with at most one preemption; quick: a seed-dependent quarter of the programs, thorough: all) plus small concurrent programs (2-4 real threads x 1-6 ops over insert/get/contains_key/invalidate/invalidate_all/sync/clock-advance on 1-3 keys; capacity none/1..4, ttl, tti, weigher) whose schedule is a generated list of preemptions at library switch points; plus a fixed litmus catalogue enumerated exhaustively for <= 2 preemptions (programs longer than 300 switch points: every position among the first 120, every 40th part of the rest); non-trivial = >= 2 threads touched the same key, >= 1 of them wrote it, and >= 1 generated preemption actually took place; distinct = distinct (program, schedule) hash";

pub fn nontrivial(prop: &str, st: &SchedStats) -> bool {
    match prop {
        "C09" => st.overlapping_sync || st.write_queue_filled || st.forced_switches > 0,
        "C12" => st.refill_checked && st.used_preemptions >= 1,
        "C07" => st.had_invalidation && st.used_preemptions >= 1 && st.shared_key_with_writer,
        "C05" | "C06" => st.expiry_decided >= 1 && st.used_preemptions >= 1 && st.shared_key_with_writer,
        "C16" => st.refill_checked && st.used_preemptions >= 1 && st.shared_key_with_writer,
        _ => st.shared_key_with_writer && st.used_preemptions >= 1,
    }
}

pub fn sched_worker(a: &WorkerArgs) -> WorkerResult {
    let t0 = std::time::Instant::now();
    let prop = a.prop.clone();
    let strategy = sched_strategy(&prop, a.thorough);
    let mut runner = TestRunner::new_with_rng(config(a.cases), rng_for(a.seed, "sched", a.idx));
    struct Acc {
        evaluations: u64,
        hashes: BTreeSet<u64>,
        classes: BTreeMap<String, u64>,
        samples: Vec<SchedCase>,
        foreign: BTreeMap<String, u64>,
        failed: bool,
    }
    let acc = RefCell::new(Acc { evaluations: 0, hashes: BTreeSet::new(), classes: BTreeMap::new(), samples: vec![], foreign: BTreeMap::new(), failed: false });
    let inflight = a.dir.join(format!("worker-{}.inflight.json", a.idx));
    let mut res = WorkerResult::default();

    // exhaustive litmus enumeration: the catalogue is split over the workers
    let lit = litmus();
    let mut exhaustive_total = 0u64;
    'outer: for (li, (name, base)) in lit.iter().enumerate() {
        if (li as u64) % a.nworkers != a.idx % a.nworkers {
            continue;
        }
        let max_pre = 2;
        // length of the unperturbed run bounds the first preemption position
        let r0 = run_guarded(base, &prop, false);
        exhaustive_total += 1;
        if let Some(v) = &r0.violation {
            if v.prop == prop {
                res.violation = Some(found(&prop, base, &run_guarded(base, &prop, true), name));
                break 'outer;
            }
        }
        let nthreads = base.threads.len() as u8;
        let len0 = r0.stats.steps;
        let mut frontier: Vec<Vec<(u32, u8)>> = vec![vec![]];
        for _depth in 0..max_pre {
            let mut next = Vec::new();
            for pre in &frontier {
                let from = pre.last().map_or(1, |p| p.0 + 1);
                // the run length may change after a preemption; probe generously
                let upto = len0 + 40;
                // long programs (bursts of gets): every position among the first 120
                // switch points, a sample of the later ones
                let stride = if len0 > 300 { (len0 / 40).max(1) } else { 1 };
                for s in (from..=upto).filter(|s| *s <= 120 || (*s - 120) % stride == 0) {
                    // (the catalogue may use a third of the time budget, the small scope
                    // another third; the rest belongs to the generated schedules)
                    if crate::budget::used(0.33) {
                        crate::budget::skip();
                        continue;
                    }
                    let mut any_used = false;
                    for c in 0..nthreads.saturating_sub(1) {
                        let mut p2 = pre.clone();
                        p2.push((s, c));
                        let case = SchedCase { preempt: p2.clone(), ..base.clone() };
                        let _ = std::fs::write(&inflight, serde_json::to_vec(&case).unwrap());
                        let r = run_guarded(&case, &prop, false);
                        exhaustive_total += 1;
                        if let Some(v) = &r.violation {
                            if v.prop == prop {
                                res.violation = Some(found(&prop, &case, &run_guarded(&case, &prop, true), name));
                                break 'outer;
                            }
                        }
                        if r.stats.used_preemptions as usize == p2.len() {
                            any_used = true;
                            next.push(p2);
                        }
                    }
                    if !any_used && s > len0 {
                        break;
                    }
                }
            }
            frontier = next;
        }
    }
    res.classes.insert("exhaustive_litmus_schedules".into(), exhaustive_total);
    res.evaluations += exhaustive_total;

    // ---- small scope: every 2-thread program over a tiny alphabet, every schedule with
    // at most one preemption (the catalogue above goes to two) -------------------------
    if res.violation.is_none() && prop != "C12" {
        let (n, v) = small_scope(a, &prop, &inflight);
        res.classes.insert("small_scope_schedules".into(), n);
        res.evaluations += n;
        res.violation = v;
    }

    if res.violation.is_none() {
        let result = runner.run(&strategy, |case| {
            if crate::budget::exhausted() && !acc.borrow().failed {
                crate::budget::skip();
                return Ok(());
            }
            let counting = !acc.borrow().failed;
            if counting {
                let _ = std::fs::write(&inflight, serde_json::to_vec(&case).unwrap());
            }
            let r = run_guarded(&case, &prop, false);
            let mut acc = acc.borrow_mut();
            if counting {
                acc.evaluations += 1;
                let st = &r.stats;
                let mut cl = |k: &str, b: bool| {
                    if b {
                        *acc.classes.entry(k.to_string()).or_insert(0) += 1;
                    }
                };
                cl("cases_with_actual_preemption", st.used_preemptions >= 1);
                cl("cases_with_2_actual_preemptions", st.used_preemptions >= 2);
                cl("cases_with_shared_key_and_writer", st.shared_key_with_writer);
                cl("cases_with_overlapping_maintenance_attempts", st.overlapping_sync);
                cl("cases_with_thread_blocked_on_maintenance_lock", st.forced_switches > 0);
                cl("cases_with_full_write_queue", st.write_queue_filled);
                cl("cases_with_get_hit", st.get_hits > 0);
                cl("cases_with_refill_checked", st.refill_checked);
                cl("cases_with_more_than_64_entries_pending", st.max_map_len > 64 + case.cfg.cap.unwrap_or(0) as usize);
                cl(&format!("threads_{}", case.threads.len()), true);
                if nontrivial(&prop, st) && r.violation.as_ref().map_or(true, |v| v.prop != prop) && acc.hashes.insert(case.hash64()) && acc.samples.len() < 2 {
                    acc.samples.push(case.clone());
                }
            }
            match r.violation {
                None => Ok(()),
                Some(v) if v.prop == prop => {
                    acc.failed = true;
                    Err(TestCaseError::fail(v.msg))
                }
                Some(v) if v.prop == "HARNESS" => {
                    acc.failed = true;
                    Err(TestCaseError::fail(format!("HARNESS {}", v.msg)))
                }
                Some(v) => {
                    if counting {
                        *acc.foreign.entry(v.prop.to_string()).or_insert(0) += 1;
                    }
                    Ok(())
                }
            }
        });
        match result {
            Ok(()) => {}
            Err(TestError::Fail(reason, case)) => {
                if reason.message().starts_with("HARNESS") {
                    res.error = Some(reason.message().to_string());
                } else {
                    res.violation = Some(found(&prop, &case, &run_guarded(&case, &prop, true), "generated"));
                }
            }
            Err(TestError::Abort(r)) => res.error = Some(format!("proptest aborted: {r}")),
        }
    }
    let _ = std::fs::remove_file(&inflight);
    let acc = acc.into_inner();
    res.evaluations += acc.evaluations;
    res.nontrivial_hashes = acc.hashes.iter().copied().collect();
    for (k, v) in acc.classes {
        *res.classes.entry(k).or_insert(0) += v;
    }
    res.foreign = acc.foreign;
    for c in &acc.samples {
        let r = run_guarded(c, &prop, true);
        res.samples.push(serde_json::json!({"config": c.cfg, "init": c.init, "threads": c.threads, "preemptions": c.preempt, "execution": r.trace}));
    }
    res.wall_s = t0.elapsed().as_secs_f64();
    res
}

fn found(prop: &str, case: &SchedCase, r: &SchedRun, origin: &str) -> Found {
    let msg = r.violation.as_ref().map(|v| format!("[{} at step {}] {} ({origin})", v.prop, v.step, v.msg)).unwrap_or_else(|| "violation did not reproduce on re-execution".into());
    Found { property: prop.to_string(), message: msg, engine: "sched".into(), case: serde_json::to_value(case).unwrap(), trace: r.trace.clone(), avoid: vec![] }
}

pub fn replay(found: &Found, show: bool) -> Option<Violation> {
    let case: SchedCase = serde_json::from_value(found.case.clone()).expect("sched case");
    let r = run_guarded(&case, &found.property, true);
    if show {
        for l in &r.trace {
            println!("    {l}");
        }
    }
    r.violation
}


/// Bounded-exhaustive exploration: all programs of two threads with 1-2 operations
/// each over a fixed alphabet of 8 operations, 3 initial states and 2 configurations,
/// and for each program the unperturbed run plus every schedule with exactly one
/// preemption. The programs are split over the workers; the quick tier takes every
/// fourth program (which fourth depends on the seed), the thorough tier all of them.
fn small_scope(a: &WorkerArgs, prop: &str, inflight: &std::path::Path) -> (u64, Option<Found>) {
    let alphabet: Vec<TOp> = vec![
        TOp::Insert { k: 0, w: 1 },
        TOp::Insert { k: 0, w: 2 },
        TOp::Insert { k: 1, w: 1 },
        TOp::Get { k: 0 },
        TOp::Invalidate { k: 0 },
        TOp::InvalidateAll,
        TOp::Sync,
        TOp::Advance { ns: 1 },
    ];
    let mut progs: Vec<Vec<TOp>> = Vec::new();
    for x in &alphabet {
        progs.push(vec![x.clone()]);
    }
    for x in &alphabet {
        for y in &alphabet {
            progs.push(vec![x.clone(), y.clone()]);
        }
    }
    let cfgs = [
        Cfg { kind: Kind::Sync, cap: None, weigher: WeigherKind::Value, ttl: None, tti: None, hasher: HasherKind::Sip, init_cap: None, nkeys: 2 },
        Cfg { kind: Kind::Sync, cap: Some(2), weigher: WeigherKind::Value, ttl: None, tti: None, hasher: HasherKind::Sip, init_cap: None, nkeys: 2 },
    ];
    let inits: [Vec<TOp>; 3] = [
        vec![],
        vec![TOp::Insert { k: 0, w: 1 }, TOp::Sync, TOp::Advance { ns: 1 }],
        vec![TOp::Insert { k: 0, w: 1 }, TOp::Sync, TOp::Advance { ns: 501 * MS }],
    ];
    let stride: u64 = if a.thorough { 1 } else { 4 };
    let mut total = 0u64;
    let mut index = 0u64;
    for cfg in &cfgs {
        for init in &inits {
            for p1 in &progs {
                for p2 in &progs {
                    index += 1;
                    if index % a.nworkers != a.idx % a.nworkers {
                        continue;
                    }
                    if (index / a.nworkers + a.seed) % stride != 0 {
                        continue;
                    }
                    if crate::budget::used(0.66) {
                        crate::budget::skip();
                        continue;
                    }
                    let base = SchedCase { cfg: cfg.clone(), init: init.clone(), threads: vec![p1.clone(), p2.clone()], preempt: vec![], first: 0, patience: 0 };
                    for first in 0..2u8 {
                        let b = SchedCase { first, ..base.clone() };
                        let r0 = run_guarded(&b, prop, false);
                        total += 1;
                        if r0.violation.as_ref().map_or(false, |v| v.prop == prop) {
                            return (total, Some(found(prop, &b, &run_guarded(&b, prop, true), "small scope")));
                        }
                        let len0 = r0.stats.steps;
                        for s in 1..=len0 + 6 {
                            let case = SchedCase { preempt: vec![(s, 0)], ..b.clone() };
                            if total % 64 == 0 {
                                let _ = std::fs::write(inflight, serde_json::to_vec(&case).unwrap());
                            }
                            let r = run_guarded(&case, prop, false);
                            total += 1;
                            if r.violation.as_ref().map_or(false, |v| v.prop == prop) {
                                return (total, Some(found(prop, &case, &run_guarded(&case, prop, true), "small scope")));
                            }
                            if r.stats.used_preemptions == 0 && s > len0 {
                                break;
                            }
                        }
                    }
                }
            }
        }
    }
    (total, None)
}
