//! COMP engine for the popularity estimator (C14, and C08 for arithmetic):
//! generated hash sequences on the sketch facade against an exact counter model.

use crate::engine::{classify_panic, config, rng_for, take_panic, Found, WorkerArgs, WorkerResult};
use crate::exec::Violation;
use mini_moka::verif::Sketch;
use proptest::prelude::*;
use proptest::test_runner::{TestCaseError, TestError, TestRunner};
use serde::{Deserialize, Serialize};
use std::cell::RefCell;
use std::collections::{BTreeMap, BTreeSet, HashMap};
use std::panic::{catch_unwind, AssertUnwindSafe};

#[derive(Clone, Debug, PartialEq, Eq, Hash, Serialize, Deserialize)]
pub enum SOp {
    /// record universe[i]
    Rec(u16),
    /// record universe[i] n times
    RecN(u16, u8),
    /// parity-directed: among the universe and 16 fresh hashes derived from the
    /// seed, record the one with the best net gain of odd counters (directed
    /// towards the region where the aging arithmetic is stressed)
    Directed(u64),
    /// ensure_capacity again with this capacity (growing forgets all counts)
    Ensure(u32),
}

#[derive(Clone, Debug, PartialEq, Eq, Hash, Serialize, Deserialize)]
pub struct SketchCase {
    pub cap: u32,
    pub universe: Vec<u64>,
    pub probes: Vec<u64>,
    pub ops: Vec<SOp>,
}

impl SketchCase {
    pub fn hash64(&self) -> u64 {
        use std::hash::{Hash, Hasher};
        let mut h = std::collections::hash_map::DefaultHasher::new();
        self.hash(&mut h);
        h.finish()
    }
}

#[derive(Default, Clone, Debug)]
pub struct SStats {
    pub resets: u64,
    pub saturated_at_reset: bool,
    pub collisions: bool,
    pub increments: u64,
    pub isolated_exact_checks: u64,
}

struct Model {
    /// (table index, counter index) -> number of distinct recorded hashes using it
    users: HashMap<(usize, u8), u32>,
    /// (table index, counter index) -> value
    counters: HashMap<(usize, u8), u8>,
    /// exact per-hash recorded count: saturating at 15, floor-halved by aging
    c: HashMap<u64, u8>,
    recorded: BTreeSet<u64>,
}

impl Model {
    fn est(&self, slots: &[(usize, u8); 4]) -> u8 {
        slots.iter().map(|s| self.counters.get(s).copied().unwrap_or(0)).min().unwrap_or(0)
    }
}

fn geometry_ok(sk: &Sketch, cap: u32) -> Result<(), String> {
    let tl = sk.table_len();
    if tl == 0 || !tl.is_power_of_two() {
        return Err(format!("table length {tl} is not a power of two"));
    }
    let want = if cap == 0 { 1 } else { (cap.min(1 << 30) as usize).next_power_of_two() };
    if tl < want {
        return Err(format!("table length {tl} is smaller than the capacity {cap} rounded up ({want})"));
    }
    Ok(())
}

pub fn run_sketch_case(case: &SketchCase) -> (Option<Violation>, SStats) {
    let mut st = SStats::default();
    let r = run_inner(case, &mut st);
    (r.err(), st)
}

macro_rules! v14 {
    ($step:expr, $($arg:tt)*) => {
        return Err(Violation { prop: "C14", step: $step, msg: format!($($arg)*) })
    };
}

fn run_inner(case: &SketchCase, st: &mut SStats) -> Result<(), Violation> {
    let mut sk = Sketch::new();
    // before ensure_capacity: every estimate is 0 and recording is ignored
    for h in case.universe.iter().take(3) {
        sk.increment(*h);
        if sk.frequency(*h) != 0 {
            v14!(0, "an unsized sketch reports estimate {} for hash {h:#x}", sk.frequency(*h));
        }
    }
    sk.ensure_capacity(case.cap);
    if let Err(e) = geometry_ok(&sk, case.cap) {
        v14!(0, "{e}");
    }
    let mut model = Model { users: HashMap::new(), counters: HashMap::new(), c: HashMap::new(), recorded: BTreeSet::new() };
    // probe set: the (head of the) universe plus never-recorded probes
    let mut all: Vec<u64> = case.universe.iter().copied().take(48).collect();
    all.extend(case.probes.iter().copied());
    let mut resets_seen = sk.resets();
    let mut step = 0usize;

    let mut record = |sk: &mut Sketch, model: &mut Model, h: u64, step: usize, st: &mut SStats| -> Result<(), Violation> {
        let before: Vec<u8> = all.iter().map(|p| sk.frequency(*p)).collect();
        let slots = sk.slots(h);
        for (i, s) in slots.iter().enumerate() {
            if s.0 >= sk.table_len() || s.1 >= 16 {
                v14!(step, "slot {i} of hash {h:#x} is out of range: {s:?}");
            }
        }
        sk.increment(h);
        st.increments += 1;
        // model: saturating add on the four counters, then aging if the sketch aged
        for s in slots.iter() {
            let e = model.counters.entry(*s).or_insert(0);
            if *e < 15 {
                *e += 1;
            }
        }
        let c = model.c.entry(h).or_insert(0);
        if *c < 15 {
            *c += 1;
        }
        if model.recorded.insert(h) {
            for s in slots.iter() {
                *model.users.entry(*s).or_insert(0) += 1;
            }
        }
        let r = sk.resets();
        let aged = r.wrapping_sub(resets_seen);
        if aged > 1 {
            v14!(step, "one recorded lookup caused {aged} aging steps");
        }
        if aged == 1 {
            st.resets += 1;
            if model.counters.values().any(|v| *v == 15) {
                st.saturated_at_reset = true;
            }
            for v in model.counters.values_mut() {
                *v >>= 1;
            }
            for v in model.c.values_mut() {
                *v >>= 1;
            }
        }
        resets_seen = r;
        // oracle
        for (i, p) in all.iter().enumerate() {
            let est = sk.frequency(*p);
            let ps = sk.slots(*p);
            let cp = model.c.get(p).copied().unwrap_or(0);
            if est > 15 {
                v14!(step, "estimate {est} of {p:#x} exceeds 15");
            }
            if est < cp {
                v14!(step, "estimate {est} of {p:#x} is below its recorded count {cp} (saturating at 15, halved by {} aging steps)", st.resets);
            }
            let own = if model.recorded.contains(p) { 1 } else { 0 };
            let isolated = ps.iter().all(|s| model.users.get(s).copied().unwrap_or(0) <= own);
            if isolated {
                st.isolated_exact_checks += 1;
                if est != cp {
                    v14!(step, "no other recorded hash shares a counter with {p:#x}, yet its estimate is {est} and its recorded count is {cp}");
                }
            } else if model.recorded.contains(p) {
                st.collisions = true;
            }
            if aged == 0 && est < before[i] {
                v14!(step, "recording {h:#x} lowered the estimate of {p:#x} from {} to {est} without an aging step", before[i]);
            }
            let want = model.est(&ps);
            if est != want {
                if aged == 1 {
                    v14!(step, "after an aging step the estimate of {p:#x} is {est}, but floor-halving every counter gives {want}");
                }
                v14!(step, "estimate of {p:#x} is {est}, but the four counters it maps to hold a minimum of {want}");
            }
        }
        Ok(())
    };

    for op in &case.ops {
        step += 1;
        match op {
            SOp::Rec(i) => {
                if case.universe.is_empty() {
                    continue;
                }
                let h = case.universe[*i as usize % case.universe.len()];
                record(&mut sk, &mut model, h, step, st)?;
            }
            SOp::RecN(i, n) => {
                if case.universe.is_empty() {
                    continue;
                }
                let h = case.universe[*i as usize % case.universe.len()];
                for _ in 0..*n {
                    record(&mut sk, &mut model, h, step, st)?;
                }
            }
            SOp::Directed(seed) => {
                let mut cands: Vec<u64> = Vec::new();
                if case.universe.len() <= 64 {
                    cands.extend(case.universe.iter().copied());
                } else {
                    let mut x = *seed;
                    for _ in 0..32 {
                        x = crate::engine::splitmix(x);
                        cands.push(case.universe[(x % case.universe.len() as u64) as usize]);
                    }
                }
                let mut x = *seed ^ 0xD1CE;
                for _ in 0..16 {
                    x = crate::engine::splitmix(x);
                    cands.push(x);
                }
                let mut best: Option<(i32, u64)> = None;
                for h in cands {
                    let mut gain = 0i32;
                    for s in sk.slots(h).iter() {
                        let v = model.counters.get(s).copied().unwrap_or(0);
                        if v < 15 {
                            gain += if v % 2 == 0 { 1 } else { -1 };
                        }
                    }
                    if best.map_or(true, |b| gain > b.0) {
                        best = Some((gain, h));
                    }
                }
                if let Some((_, h)) = best {
                    record(&mut sk, &mut model, h, step, st)?;
                }
            }
            SOp::Ensure(cap) => {
                let before = sk.table_len();
                sk.ensure_capacity(*cap);
                if sk.table_len() < before {
                    v14!(step, "ensure_capacity({cap}) shrank the table from {before} to {}", sk.table_len());
                }
                if sk.table_len() != before {
                    // growing forgets all previous counts
                    model.counters.clear();
                    model.users.clear();
                    model.c.clear();
                    model.recorded.clear();
                    for p in &all {
                        if sk.frequency(*p) != 0 {
                            v14!(step, "after growing the table the estimate of {p:#x} is {} instead of 0", sk.frequency(*p));
                        }
                    }
                }
            }
        }
    }
    Ok(())
}

// ---- generation -----------------------------------------------------------------

const CAPS: [u32; 14] = [0, 1, 2, 3, 3, 5, 5, 8, 100, 128, 129, 200, 1000, 1 << 20];

/// Hashes whose value *after* the sketch's per-depth mixing `(h + seed) * seed` lands
/// on a numeric boundary (0, 1, 2^32-1, 2^32, 2^63, 2^64-2^32, 2^64-1, ...): the
/// boundary-directed part of the generator. The four seeds are the sketch's own.
fn boundary_preimages() -> Vec<u64> {
    const SEED: [u64; 4] = [0xc3a5_c85c_97cb_3127, 0xb492_b66f_be98_f273, 0x9ae1_6a3b_2f90_404f, 0xcbf2_9ce4_8422_2325];
    let targets: [u64; 11] = [0, 1, 2, 0xFFFF_FFFF, 0x1_0000_0000, 0x7FFF_FFFF_FFFF_FFFF, 0x8000_0000_0000_0000, 0xFFFF_FFFF_0000_0000, 0xFFFF_FFFF_0000_0001, 0xFFFF_FFFF_FFFF_FFFE, u64::MAX];
    let mut out = Vec::new();
    for s in SEED {
        // modular inverse of the (odd) seed by Newton iteration
        let mut inv: u64 = s;
        for _ in 0..6 {
            inv = inv.wrapping_mul(2u64.wrapping_sub(s.wrapping_mul(inv)));
        }
        debug_assert_eq!(s.wrapping_mul(inv), 1);
        for t in targets {
            out.push(t.wrapping_mul(inv).wrapping_sub(s));
        }
    }
    out
}

fn universe_strategy() -> BoxedStrategy<Vec<u64>> {
    prop_oneof![
        // hashes that hit numeric boundaries inside the sketch's index computation
        (proptest::collection::vec(any::<u64>(), 0..8), any::<u16>()).prop_map(|(mut v, rot)| {
            let mut b = boundary_preimages();
            let n = b.len();
            b.rotate_left(rot as usize % n);
            b.truncate(24);
            b.append(&mut v);
            b
        }),
        // uniform
        proptest::collection::vec(any::<u64>(), 1..40),
        // many distinct hashes: covers most counters of a small table
        proptest::collection::vec(any::<u64>(), 40..200),
        // low-entropy hashes (small integers): heavy collisions in small tables
        proptest::collection::vec(0u64..64, 1..24),
        // single key
        any::<u64>().prop_map(|h| vec![h]),
    ]
    .boxed()
}

fn sop() -> BoxedStrategy<SOp> {
    prop_oneof![
        10 => any::<u16>().prop_map(SOp::Rec),
        3 => (any::<u16>(), 1u8..20).prop_map(|(i, n)| SOp::RecN(i, n)),
        14 => any::<u64>().prop_map(SOp::Directed),
    ]
    .boxed()
}

pub fn sketch_strategy(thorough: bool) -> BoxedStrategy<SketchCase> {
    (0usize..CAPS.len() + 1, universe_strategy(), proptest::collection::vec(any::<u64>(), 0..4), any::<u8>(), any::<u16>())
        .prop_flat_map(move |(ci, universe, probes, zipf, ens)| {
            let cap = if ci < CAPS.len() { CAPS[ci] } else { (1 << 20) + 1 };
            let sample = if cap == 0 { 10 } else { cap as usize * 10 };
            // long enough to cross several aging steps for small and medium capacities
            let max_ops = if cap <= 8 {
                sample * 4 + 20
            } else if cap <= 1000 {
                (sample + sample / 2).min(if thorough { 16000 } else { 2200 })
            } else {
                200
            };
            let skew = zipf % 3;
            let u2 = universe.clone();
            (Just(cap), Just(universe), Just(probes), proptest::collection::vec(sop(), 0..max_ops), Just(skew), Just(ens), Just(u2.len()))
        })
        .prop_map(|(cap, universe, probes, mut ops, skew, ens, n)| {
            // skewed variants: concentrate recordings on the first few hashes
            if skew == 1 && n > 3 {
                for op in ops.iter_mut() {
                    if let SOp::Rec(i) = op {
                        *i = (*i % 4) as u16;
                    }
                }
            }
            if ens % 16 == 0 && !ops.is_empty() {
                let pos = (ens as usize / 16) % ops.len();
                ops.insert(pos, SOp::Ensure(cap.saturating_mul(2).max(2)));
            }
            SketchCase { cap, universe, probes, ops }
        })
        .boxed()
}

pub fn nontrivial(st: &SStats) -> bool {
    st.resets >= 1 && st.saturated_at_reset && st.collisions
}

pub const RULE: &str = "hash sequences (uniform / many-distinct / low-entropy / single-key universes, skewed and parity-directed recording) on the sketch facade for capacities {0,1,2,3,5,8,100,128,129,200,1000,2^20,2^20+1} against an exact per-counter and per-hash model; non-trivial = the sequence crossed >= 1 aging step with >= 1 saturated counter and >= 1 collision between distinct recorded hashes; plus a bounded-exhaustive sub-run over tiny universes at capacity 0/1";

/// Bounded-exhaustive: every sequence over a tiny universe up to a length bound.
fn exhaustive_cases() -> Vec<SketchCase> {
    let mut out = Vec::new();
    let universes: Vec<(Vec<u64>, usize)> = vec![
        (vec![0x10], 24),
        (vec![0x10, 0x14], 12),     // same low two bits: share all four counters at table length 1
        (vec![0x10, 0x11], 12),     // different low bits: disjoint counters
        (vec![0x10, 0x14, 0x13], 8),
    ];
    for cap in [0u32, 1] {
        for (u, maxlen) in &universes {
            let n = u.len();
            for len in 0..=*maxlen {
                let total = (n as u64).pow(len as u32);
                if total > 60_000 {
                    continue;
                }
                for code in 0..total {
                    let mut c = code;
                    let mut ops = Vec::with_capacity(len);
                    for _ in 0..len {
                        ops.push(SOp::Rec((c % n as u64) as u16));
                        c /= n as u64;
                    }
                    out.push(SketchCase { cap, universe: u.clone(), probes: vec![0x12], ops });
                }
            }
        }
    }
    out
}

pub fn sketch_worker(a: &WorkerArgs) -> WorkerResult {
    let t0 = std::time::Instant::now();
    let strategy = sketch_strategy(a.thorough);
    let mut runner = TestRunner::new_with_rng(config(a.cases), rng_for(a.seed, "sketch", a.idx));
    let want = a.prop.clone();

    struct Acc {
        evaluations: u64,
        hashes: BTreeSet<u64>,
        classes: BTreeMap<String, u64>,
        samples: Vec<SketchCase>,
        foreign: BTreeMap<String, u64>,
        aborted: u64,
        failed: bool,
    }
    let acc = RefCell::new(Acc { evaluations: 0, hashes: BTreeSet::new(), classes: BTreeMap::new(), samples: vec![], foreign: BTreeMap::new(), aborted: 0, failed: false });
    let inflight = a.dir.join(format!("worker-{}.inflight.json", a.idx));

    let run_one = |case: &SketchCase| -> (Option<Violation>, SStats, bool) {
        match catch_unwind(AssertUnwindSafe(|| run_sketch_case(case))) {
            Ok((v, st)) => (v, st, false),
            Err(_) => {
                let (msg, loc) = take_panic();
                (Some(classify_panic(&msg, &loc)), SStats::default(), true)
            }
        }
    };

    let mut res = WorkerResult::default();
    // exhaustive sub-run (worker 0 only; identical for every seed)
    if a.idx == 0 {
        let cases = exhaustive_cases();
        let mut n = 0u64;
        for c in &cases {
            let (v, _st, _p) = run_one(c);
            n += 1;
            if let Some(v) = v {
                if v.prop == want {
                    res.violation = Some(found(&want, c, &v));
                    break;
                }
            }
        }
        res.classes.insert("exhaustive_tiny_universe_sequences".into(), n);
        res.evaluations += n;
    }

    if res.violation.is_none() {
        let result = runner.run(&strategy, |case| {
            if crate::budget::exhausted() && !acc.borrow().failed {
                crate::budget::skip();
                return Ok(());
            }
            let counting = !acc.borrow().failed;
            if counting {
                let _ = std::fs::write(&inflight, serde_json::to_vec(&case).unwrap());
            }
            let (v, st, panicked) = run_one(&case);
            let mut acc = acc.borrow_mut();
            if counting {
                acc.evaluations += 1;
                let mut cl = |k: &str, b: bool| {
                    if b {
                        *acc.classes.entry(k.to_string()).or_insert(0) += 1;
                    }
                };
                cl("cases_with_aging_step", st.resets > 0);
                cl("cases_with_2_aging_steps", st.resets > 1);
                cl("cases_with_saturated_counter_at_aging", st.saturated_at_reset);
                cl("cases_with_collisions", st.collisions);
                cl("cases_with_isolated_exact_checks", st.isolated_exact_checks > 0);
                cl(&format!("cap_{}", case.cap), true);
                if nontrivial(&st) && acc.hashes.insert(case.hash64()) && acc.samples.len() < 2 {
                    acc.samples.push(case.clone());
                }
            }
            match v {
                None => Ok(()),
                Some(v) if v.prop == want => {
                    acc.failed = true;
                    Err(TestCaseError::fail(v.msg))
                }
                Some(v) if v.prop == "HARNESS" => {
                    acc.failed = true;
                    Err(TestCaseError::fail(format!("HARNESS {}", v.msg)))
                }
                Some(v) => {
                    if counting {
                        *acc.foreign.entry(v.prop.to_string()).or_insert(0) += 1;
                        if panicked {
                            acc.aborted += 1;
                        }
                    }
                    Ok(())
                }
            }
        });
        match result {
            Ok(()) => {}
            Err(TestError::Fail(reason, case)) => {
                if reason.message().starts_with("HARNESS") {
                    res.error = Some(reason.message().to_string());
                } else {
                    let (v, _, _) = run_one(&case);
                    let v = v.unwrap_or(Violation { prop: "C14", step: 0, msg: "did not reproduce".into() });
                    res.violation = Some(found(&want, &case, &v));
                }
            }
            Err(TestError::Abort(r)) => res.error = Some(format!("proptest aborted: {r}")),
        }
    }
    let _ = std::fs::remove_file(&inflight);
    let acc = acc.into_inner();
    res.evaluations += acc.evaluations;
    res.nontrivial_hashes = acc.hashes.iter().copied().collect();
    for (k, v) in acc.classes {
        *res.classes.entry(k).or_insert(0) += v;
    }
    res.foreign = acc.foreign;
    res.aborted_by_panic = acc.aborted;
    for c in &acc.samples {
        let mut ops = c.ops.clone();
        let n = ops.len();
        ops.truncate(30);
        res.samples.push(serde_json::json!({"capacity": c.cap, "universe_size": c.universe.len(), "universe_head": c.universe.iter().take(6).map(|h| format!("{h:#x}")).collect::<Vec<_>>(), "ops_total": n, "ops_head": ops}));
    }
    res.wall_s = t0.elapsed().as_secs_f64();
    res
}

fn found(prop: &str, case: &SketchCase, v: &Violation) -> Found {
    Found {
        property: prop.to_string(),
        message: format!("[{} at sketch step {}] {} (capacity {}, universe of {} hashes, {} ops)", v.prop, v.step, v.msg, case.cap, case.universe.len(), case.ops.len()),
        engine: "sketch".into(),
        case: serde_json::to_value(case).unwrap(),
        trace: vec![],
        avoid: vec![],
    }
}

pub fn replay(found: &Found) -> Option<Violation> {
    let case: SketchCase = serde_json::from_value(found.case.clone()).expect("sketch case");
    match catch_unwind(AssertUnwindSafe(|| run_sketch_case(&case))) {
        Ok((v, _)) => v,
        Err(_) => {
            let (msg, loc) = take_panic();
            Some(classify_panic(&msg, &loc))
        }
    }
}
