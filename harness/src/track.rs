//! Drop-tracking key and value types and deterministic hashers.

use crate::types::HasherKind;
use std::collections::HashSet;
use std::hash::{BuildHasher, Hash, Hasher};
use std::sync::atomic::{AtomicBool, AtomicU64, Ordering};
use std::sync::{Arc, Mutex};

/// Per-case registry of live key/value objects.
#[derive(Default)]
pub struct Reg {
    next_id: AtomicU64,
    live_keys: Mutex<HashSet<u64>>,
    live_vals: Mutex<HashSet<u64>>,
    double_drop: AtomicBool,
    pub key_constructions: AtomicU64,
    pub val_constructions: AtomicU64,
    pub key_drops: AtomicU64,
    pub val_drops: AtomicU64,
}

impl Reg {
    pub fn new() -> Arc<Reg> {
        Arc::new(Reg::default())
    }
    fn fresh(&self) -> u64 {
        self.next_id.fetch_add(1, Ordering::Relaxed)
    }
    pub fn live_keys(&self) -> usize {
        self.live_keys.lock().unwrap_or_else(|e| e.into_inner()).len()
    }
    pub fn live_vals(&self) -> usize {
        self.live_vals.lock().unwrap_or_else(|e| e.into_inner()).len()
    }
    pub fn double_drop(&self) -> bool {
        self.double_drop.load(Ordering::SeqCst)
    }
}

pub struct TK {
    pub k: u32,
    id: u64,
    reg: Arc<Reg>,
}

impl TK {
    pub fn new(k: u32, reg: &Arc<Reg>) -> TK {
        let id = reg.fresh();
        reg.live_keys
            .lock()
            .unwrap_or_else(|e| e.into_inner())
            .insert(id);
        reg.key_constructions.fetch_add(1, Ordering::Relaxed);
        TK {
            k,
            id,
            reg: Arc::clone(reg),
        }
    }
}

impl Clone for TK {
    fn clone(&self) -> TK {
        TK::new(self.k, &self.reg)
    }
}

impl Drop for TK {
    fn drop(&mut self) {
        let was = self
            .reg
            .live_keys
            .lock()
            .unwrap_or_else(|e| e.into_inner())
            .remove(&self.id);
        self.reg.key_drops.fetch_add(1, Ordering::Relaxed);
        if !was {
            self.reg.double_drop.store(true, Ordering::SeqCst);
        }
    }
}

impl PartialEq for TK {
    fn eq(&self, o: &TK) -> bool {
        self.k == o.k
    }
}
impl Eq for TK {}
impl Hash for TK {
    fn hash<H: Hasher>(&self, state: &mut H) {
        state.write_u32(self.k)
    }
}
impl std::fmt::Debug for TK {
    fn fmt(&self, f: &mut std::fmt::Formatter<'_>) -> std::fmt::Result {
        write!(f, "k{}", self.k)
    }
}

pub struct TV {
    pub seq: u32,
    pub w: u32,
    id: u64,
    reg: Arc<Reg>,
}

impl TV {
    pub fn new(seq: u32, w: u32, reg: &Arc<Reg>) -> TV {
        let id = reg.fresh();
        reg.live_vals
            .lock()
            .unwrap_or_else(|e| e.into_inner())
            .insert(id);
        reg.val_constructions.fetch_add(1, Ordering::Relaxed);
        TV {
            seq,
            w,
            id,
            reg: Arc::clone(reg),
        }
    }
}

impl Clone for TV {
    fn clone(&self) -> TV {
        TV::new(self.seq, self.w, &self.reg)
    }
}

impl Drop for TV {
    fn drop(&mut self) {
        let was = self
            .reg
            .live_vals
            .lock()
            .unwrap_or_else(|e| e.into_inner())
            .remove(&self.id);
        self.reg.val_drops.fetch_add(1, Ordering::Relaxed);
        if !was {
            self.reg.double_drop.store(true, Ordering::SeqCst);
        }
    }
}

impl std::fmt::Debug for TV {
    fn fmt(&self, f: &mut std::fmt::Formatter<'_>) -> std::fmt::Result {
        write!(f, "v{}(w{})", self.seq, self.w)
    }
}

// ---------------------------------------------------------------------------

/// One `BuildHasher` type for all hasher kinds (keeps the caches monomorphic).
#[derive(Clone, Copy, Debug)]
pub struct VBuild {
    pub kind: HasherKind,
}

pub enum VHasher {
    Sip(std::collections::hash_map::DefaultHasher),
    Collide,
    Identity(u64),
}

impl BuildHasher for VBuild {
    type Hasher = VHasher;
    fn build_hasher(&self) -> VHasher {
        match self.kind {
            HasherKind::Sip => VHasher::Sip(std::collections::hash_map::DefaultHasher::new()),
            HasherKind::Collide => VHasher::Collide,
            HasherKind::Identity => VHasher::Identity(0),
        }
    }
}

impl Hasher for VHasher {
    fn finish(&self) -> u64 {
        match self {
            VHasher::Sip(h) => h.finish(),
            VHasher::Collide => 0x5151_5151_5151_5151,
            VHasher::Identity(v) => *v,
        }
    }
    fn write(&mut self, bytes: &[u8]) {
        match self {
            VHasher::Sip(h) => h.write(bytes),
            VHasher::Collide => {}
            VHasher::Identity(v) => {
                for b in bytes {
                    *v = (*v << 8) | *b as u64;
                }
            }
        }
    }
    fn write_u32(&mut self, i: u32) {
        match self {
            VHasher::Sip(h) => h.write_u32(i),
            VHasher::Collide => {}
            VHasher::Identity(v) => *v = i as u64,
        }
    }
}
