fn main() {
    mmv::cli_main();
}
