//! Entry points of the libFuzzer targets. Every iteration builds its own cache,
//! model and registry (no state leaks between iterations); the semantic oracle is
//! the same interpreter the proptest engines use. A violation of an enabled
//! property is written as a replay file and aborts the process.

use crate::engine::{classify_panic, install_panic_hook, take_panic, Found};
use crate::exec::{run_case, Flags, Violation};
use crate::{comp_deque, comp_sketch, fuzzdec, gen};
use std::collections::HashSet;
use std::panic::{catch_unwind, AssertUnwindSafe};
use std::sync::Mutex;
use std::sync::Once;

static INIT: Once = Once::new();
static STATS: Mutex<Option<(u64, HashSet<u64>)>> = Mutex::new(None);

fn props() -> Vec<String> {
    std::env::var("VERIF_PROPS").unwrap_or_else(|_| "C08".into()).split(',').map(|s| s.trim().to_string()).filter(|s| !s.is_empty()).collect()
}

fn init() {
    INIT.call_once(|| {
        install_panic_hook();
        crate::sched_hooks::install();
        *STATS.lock().unwrap() = Some((0, HashSet::new()));
    });
}

fn note(hash: Option<u64>) {
    let mut g = STATS.lock().unwrap_or_else(|e| e.into_inner());
    if let Some((n, set)) = g.as_mut() {
        *n += 1;
        if let Some(h) = hash {
            set.insert(h);
        }
        if *n % 500 == 0 {
            if let Ok(p) = std::env::var("VERIF_FUZZ_STATS") {
                let _ = std::fs::write(p, format!("{{\"evaluations\": {}, \"distinct_nontrivial\": {}}}", n, set.len()));
            }
        }
    }
}

fn report(prop: &str, engine: &str, case: serde_json::Value, v: &Violation, avoid: Vec<String>) -> ! {
    let f = Found { property: prop.to_string(), message: format!("[{} at step {}] {} (found by libFuzzer)", v.prop, v.step, v.msg), engine: engine.to_string(), case, trace: vec![], avoid };
    let dir = std::path::Path::new(&crate::sup::verif_root()).join("replays");
    let _ = std::fs::create_dir_all(&dir);
    use std::hash::{Hash, Hasher};
    let mut h = std::collections::hash_map::DefaultHasher::new();
    f.case.to_string().hash(&mut h);
    let p = dir.join(format!("{}-fuzz-{:016x}.json", prop, h.finish()));
    let _ = std::fs::write(&p, serde_json::to_vec_pretty(&f).unwrap());
    eprintln!("{}", f.message);
    eprintln!("VIOLATION property={} replay={}", prop, p.display());
    std::process::abort();
}

pub fn seq(data: &[u8]) {
    init();
    let ps = props();
    // one profile per enabled property, chosen by the first byte when several are enabled
    let which = data.first().copied().unwrap_or(0) as usize % ps.len().max(1);
    let prop = ps.get(which).cloned().unwrap_or_else(|| "C08".into());
    let Some(case) = fuzzdec::seq_case(data.get(1..).unwrap_or(&[]), &prop) else { return };
    let flags = Flags::for_prop(&prop);
    let avoid_s6 = matches!(prop.as_str(), "C10" | "C11");
    let r = catch_unwind(AssertUnwindSafe(|| run_case(&case, flags, false, avoid_s6)));
    match r {
        Ok(o) => {
            let nt = gen::nontrivial(&prop, &o.stats);
            note(if nt { Some(case.hash64()) } else { None });
            if let Some(v) = o.violation {
                if v.prop == prop {
                    report(&prop, "seq", serde_json::to_value(&case).unwrap(), &v, if avoid_s6 { vec!["S6".into()] } else { vec![] });
                }
            }
        }
        Err(_) => {
            let (msg, loc) = take_panic();
            let v = classify_panic(&msg, &loc);
            note(None);
            if v.prop == prop || v.prop == "HARNESS" {
                report(&prop, "seq", serde_json::to_value(&case).unwrap(), &v, vec![]);
            }
        }
    }
}

pub fn sketch(data: &[u8]) {
    init();
    let prop = props().first().cloned().unwrap_or_else(|| "C14".into());
    let Some(case) = fuzzdec::sketch_case(data) else { return };
    let r = catch_unwind(AssertUnwindSafe(|| comp_sketch::run_sketch_case(&case)));
    let v = match r {
        Ok((v, st)) => {
            note(if comp_sketch::nontrivial(&st) { Some(case.hash64()) } else { None });
            v
        }
        Err(_) => {
            let (msg, loc) = take_panic();
            note(None);
            Some(classify_panic(&msg, &loc))
        }
    };
    if let Some(v) = v {
        if v.prop == prop {
            report(&prop, "sketch", serde_json::to_value(&case).unwrap(), &v, vec![]);
        }
    }
}

pub fn deque(data: &[u8]) {
    init();
    let Some(case) = fuzzdec::deque_case(data) else { return };
    let r = catch_unwind(AssertUnwindSafe(|| comp_deque::run_deque_case(&case)));
    let v = match r {
        Ok((v, st)) => {
            note(if comp_deque::nontrivial(&st) { Some(case.hash64()) } else { None });
            v
        }
        Err(_) => {
            let (msg, loc) = take_panic();
            note(None);
            Some(classify_panic(&msg, &loc))
        }
    };
    if let Some(v) = v {
        report("C08", "deque", serde_json::to_value(&case).unwrap(), &v, vec![]);
    }
}
