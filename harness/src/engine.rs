//! Worker side of the sequential engines: drives proptest, collects evidence,
//! shrinks failures. One worker = one process = one seed stream.

use crate::exec::{self, Flags, Stats, Violation};
use crate::gen;
use crate::types::*;
use proptest::strategy::{Strategy, ValueTree};
use proptest::test_runner::{Config, RngAlgorithm, TestCaseError, TestError, TestRng, TestRunner};
use serde::{Deserialize, Serialize};
use std::cell::RefCell;
use std::collections::{BTreeMap, BTreeSet};
use std::panic::{catch_unwind, AssertUnwindSafe};
use std::path::{Path, PathBuf};

#[derive(Clone, Debug, Default, Serialize, Deserialize)]
pub struct WorkerResult {
    pub evaluations: u64,
    pub nontrivial_hashes: Vec<u64>,
    pub classes: BTreeMap<String, u64>,
    pub samples: Vec<serde_json::Value>,
    pub violation: Option<Found>,
    /// violations of *other* properties met on the way (not reported by this check)
    pub foreign: BTreeMap<String, u64>,
    pub aborted_by_panic: u64,
    pub excluded: BTreeMap<String, u64>,
    pub error: Option<String>,
    pub wall_s: f64,
}

#[derive(Clone, Debug, Serialize, Deserialize)]
pub struct Found {
    pub property: String,
    pub message: String,
    pub engine: String,
    pub case: serde_json::Value,
    pub trace: Vec<String>,
    /// open known findings whose trigger was avoided when this was found; a
    /// replay avoids the same ones (empty = strict)
    #[serde(default)]
    pub avoid: Vec<String>,
}

pub fn splitmix(mut x: u64) -> u64 {
    x = x.wrapping_add(0x9E37_79B9_7F4A_7C15);
    let mut z = x;
    z = (z ^ (z >> 30)).wrapping_mul(0xBF58_476D_1CE4_E5B9);
    z = (z ^ (z >> 27)).wrapping_mul(0x94D0_49BB_1331_11EB);
    z ^ (z >> 31)
}

pub fn rng_for(seed: u64, prop: &str, idx: u64) -> TestRng {
    let mut bytes = [0u8; 32];
    let mut x = splitmix(seed ^ 0xA5A5_0000);
    for b in prop.bytes() {
        x = splitmix(x ^ b as u64);
    }
    x = splitmix(x ^ idx.wrapping_mul(0x1000_0001));
    for chunk in bytes.chunks_mut(8) {
        x = splitmix(x);
        chunk.copy_from_slice(&x.to_le_bytes());
    }
    TestRng::from_seed(RngAlgorithm::ChaCha, &bytes)
}

pub fn config(cases: u32) -> Config {
    Config {
        cases,
        failure_persistence: None,
        max_shrink_iters: 4096,
        max_shrink_time: 30_000,
        max_global_rejects: 1_000_000,
        verbose: 0,
        ..Config::default()
    }
}

// ---- panic capture -----------------------------------------------------------

thread_local! {
    static LAST_PANIC: RefCell<Option<(String, String)>> = RefCell::new(None);
}

pub fn install_panic_hook() {
    std::panic::set_hook(Box::new(|info| {
        let msg = if let Some(s) = info.payload().downcast_ref::<&str>() {
            s.to_string()
        } else if let Some(s) = info.payload().downcast_ref::<String>() {
            s.clone()
        } else {
            "<non-string panic>".to_string()
        };
        let loc = info.location().map(|l| format!("{}:{}", l.file(), l.line())).unwrap_or_default();
        LAST_PANIC.with(|p| *p.borrow_mut() = Some((msg, loc)));
    }));
}

pub fn take_panic() -> (String, String) {
    LAST_PANIC.with(|p| p.borrow_mut().take()).unwrap_or_default()
}

/// A panic is attributed to the library when it is raised in mini-moka's sources
/// (or in std/deps on its behalf), and to the harness when raised in /verif.
pub fn classify_panic(msg: &str, loc: &str) -> Violation {
    if msg.starts_with("C09:") {
        return Violation { prop: "C09", step: 0, msg: msg.to_string() };
    }
    if loc.contains("/verif/harness/") && !msg.starts_with("C09:") {
        return Violation { prop: "HARNESS", step: 0, msg: format!("harness panic at {loc}: {msg}") };
    }
    Violation { prop: "C08", step: 0, msg: format!("panic inside the library at {loc}: {msg}") }
}

// ---- running one case with panic attribution --------------------------------

pub struct Ran {
    pub violation: Option<Violation>,
    pub stats: Stats,
    pub trace: Vec<String>,
    pub panicked: bool,
}

pub fn run_seq_case(case: &Case, flags: Flags, trace: bool, avoid_s6: bool) -> Ran {
    let r = catch_unwind(AssertUnwindSafe(|| exec::run_case(case, flags, trace, avoid_s6)));
    match r {
        Ok(o) => Ran { violation: o.violation, stats: o.stats, trace: o.trace, panicked: false },
        Err(_) => {
            let (msg, loc) = take_panic();
            Ran { violation: Some(classify_panic(&msg, &loc)), stats: Stats::default(), trace: vec![], panicked: true }
        }
    }
}

/// C15: run h and h' (h plus extra pure observations) and compare everything else.
pub fn run_pair_case(case: &Case, exclude_u4: bool, avoid_s6: bool, excluded: &mut u64, trace: bool) -> Ran {
    let r = catch_unwind(AssertUnwindSafe(|| run_pair_inner(case, exclude_u4, avoid_s6, excluded, trace)));
    match r {
        Ok(o) => o,
        Err(_) => {
            let (msg, loc) = take_panic();
            Ran { violation: Some(classify_panic(&msg, &loc)), stats: Stats::default(), trace: vec![], panicked: true }
        }
    }
}

fn run_pair_inner(case: &Case, exclude_u4: bool, avoid_s6: bool, excluded: &mut u64, trace: bool) -> Ran {
    let base = Case { cfg: case.cfg.clone(), ops: case.ops.clone(), extra: vec![], drop_unsynced: false };
    let mut exb = exec::Exec::new(&base, Flags::default(), trace);
    exb.set_avoid_s6(avoid_s6);
    let rb = exb.run(&base);
    if rb.is_err() {
        return Ran { violation: None, stats: exb.stats.clone(), trace: vec![], panicked: false };
    }
    let over: BTreeMap<usize, bool> = {
        // after original op i: last recorded value for that step
        let mut m = BTreeMap::new();
        for (s, o) in &exb.over_cap_after {
            m.insert(*s, *o);
        }
        m
    };
    // build h'
    let mut extras = case.extra.clone();
    extras.sort_by_key(|e| e.0);
    let mut ops2: Vec<Op> = Vec::new();
    let mut orig: Vec<Option<usize>> = Vec::new();
    let mut ei = 0;
    let mut inserted = 0u64;
    for (i, op) in base.ops.iter().enumerate() {
        while ei < extras.len() && extras[ei].0 <= i {
            let over_before = if i == 0 { false } else { *over.get(&(i - 1)).unwrap_or(&false) };
            let is_unsync_contains = base.cfg.kind == Kind::Unsync && matches!(extras[ei].1, Op::Contains { .. });
            if exclude_u4 && is_unsync_contains && over_before {
                *excluded += 1;
            } else {
                ops2.push(extras[ei].1.clone());
                orig.push(None);
                inserted += 1;
            }
            ei += 1;
        }
        ops2.push(op.clone());
        orig.push(Some(i));
    }
    while ei < extras.len() {
        let over_before = base.ops.len().checked_sub(1).map_or(false, |l| *over.get(&l).unwrap_or(&false));
        let is_unsync_contains = base.cfg.kind == Kind::Unsync && matches!(extras[ei].1, Op::Contains { .. });
        if exclude_u4 && is_unsync_contains && over_before {
            *excluded += 1;
        } else {
            ops2.push(extras[ei].1.clone());
            orig.push(None);
            inserted += 1;
        }
        ei += 1;
    }
    let variant = Case { cfg: case.cfg.clone(), ops: ops2, extra: vec![], drop_unsynced: false };
    let mut exv = exec::Exec::new(&variant, Flags::default(), trace);
    exv.set_pure_check(true);
    exv.set_avoid_s6(avoid_s6);
    let rv = exv.run(&variant);
    let mut stats = exb.stats.clone();
    stats.add("extra_calls_inserted", inserted);
    if let Err(v) = rv {
        if v.prop == "C15" {
            let mut t = exv.trace.clone();
            t.insert(0, "--- h' (with extra observations) ---".into());
            return Ran { violation: Some(v), stats, trace: t, panicked: false };
        }
        return Ran { violation: None, stats, trace: vec![], panicked: false };
    }
    // entry_count()/weighted_size() are not lookups: they legitimately depend on
    // when expired entries are purged, so they are not compared
    let rb: Vec<&String> = exb.results.iter().map(|r| &r.1).filter(|r| !r.starts_with("counters=")).collect();
    let rv: Vec<(usize, &String)> = exv
        .results
        .iter()
        .filter(|r| r.0 >= orig.len() || orig[r.0].is_some())
        .filter(|r| !r.1.starts_with("counters="))
        .map(|r| (r.0, &r.1))
        .collect();
    let mut violation = None;
    if rb.len() != rv.len() {
        violation = Some(Violation { prop: "C15", step: 0, msg: format!("h yields {} results but h' yields {}", rb.len(), rv.len()) });
    } else {
        for (a, (s2, b)) in rb.iter().zip(rv.iter()) {
            if a != b {
                violation = Some(Violation {
                    prop: "C15",
                    step: *s2,
                    msg: format!("adding pure observations changed a later result: without them `{a}`, with them `{b}` (step {s2} of h')"),
                });
                break;
            }
        }
    }
    if inserted > 0 && (stats.get("entries_evicted_for_capacity") > 0 || stats.get("rejected_inserts") > 0 || stats.get("expired_entries_purged") > 0) {
        stats.inc("pair_with_decisions_after_extra_calls");
    }
    let mut t = Vec::new();
    if trace {
        t.push("--- h ---".to_string());
        t.extend(exb.trace.iter().cloned());
        t.push("--- h' (with extra observations) ---".to_string());
        t.extend(exv.trace.iter().cloned());
    }
    Ran { violation, stats, trace: t, panicked: false }
}

// ---- the worker ---------------------------------------------------------------

pub struct WorkerArgs {
    pub prop: String,
    pub thorough: bool,
    pub seed: u64,
    pub idx: u64,
    pub nworkers: u64,
    pub cases: u32,
    pub dir: PathBuf,
    pub open_findings: BTreeSet<String>,
}

fn c15_strategy(p: &gen::Profile) -> proptest::strategy::BoxedStrategy<Case> {
    use proptest::prelude::*;
    let base = gen::case_strategy(p);
    (base, proptest::collection::vec((any::<u16>(), any::<u16>(), any::<bool>()), 1..12))
        .prop_map(|(mut c, ex)| {
            let n = c.ops.len();
            let nk = c.cfg.nkeys;
            c.extra = ex
                .into_iter()
                .map(|(pos, k, it)| {
                    let pos = ((pos as usize) * (n + 1)) >> 16;
                    let k = ((k as u32) * nk) >> 16;
                    // (the Debug output lists the entries: an iteration through another entry point)
                    (pos, if it && k % 3 == 2 { Op::DebugFmt } else if it { Op::Iter } else { Op::Contains { k } })
                })
                .collect();
            c
        })
        .boxed()
}

pub fn seq_worker(a: &WorkerArgs) -> WorkerResult {
    let t0 = std::time::Instant::now();
    let flags = Flags::for_prop(&a.prop);
    let profile = gen::profile_for(&a.prop, a.thorough);
    let is_pair = a.prop == "C15";
    let strategy = if is_pair { c15_strategy(&profile) } else { gen::case_strategy(&profile) };
    let mut runner = TestRunner::new_with_rng(config(a.cases), rng_for(a.seed, &a.prop, a.idx));
    let exclude_u4 = a.open_findings.contains("U4");
    // S6 only concerns what stays physically held and counted (C10, C11); every
    // other property is searched without stepping around its trigger
    let avoid_s6 = a.open_findings.contains("S6") && matches!(a.prop.as_str(), "C10" | "C11");

    struct Acc {
        evaluations: u64,
        hashes: BTreeSet<u64>,
        classes: BTreeMap<String, u64>,
        sample_cases: Vec<Case>,
        foreign: BTreeMap<String, u64>,
        aborted: u64,
        excluded_u4: u64,
        excluded_s6: u64,
        failed: bool,
        harness_error: Option<String>,
    }
    let acc = RefCell::new(Acc {
        evaluations: 0,
        hashes: BTreeSet::new(),
        classes: BTreeMap::new(),
        sample_cases: vec![],
        foreign: BTreeMap::new(),
        aborted: 0,
        excluded_u4: 0,
        excluded_s6: 0,
        failed: false,
        harness_error: None,
    });
    let inflight = a.dir.join(format!("worker-{}.inflight.json", a.idx));
    let prop = a.prop.clone();

    let result = runner.run(&strategy, |case| {
        if crate::budget::exhausted() && !acc.borrow().failed {
            crate::budget::skip();
            return Ok(());
        }
        let counting = !acc.borrow().failed;
        if counting {
            // so that a crash (abort, segfault) leaves the offending case behind
            let _ = std::fs::write(&inflight, serde_json::to_vec(&case).unwrap());
        }
        let mut excl = 0u64;
        let ran = if is_pair { run_pair_case(&case, exclude_u4, avoid_s6, &mut excl, false) } else { run_seq_case(&case, flags, false, avoid_s6) };
        let mut acc = acc.borrow_mut();
        if counting {
            acc.evaluations += 1;
            acc.excluded_u4 += excl;
            acc.excluded_s6 += ran.stats.get("excluded_S6");
            for (k, v) in &ran.stats.c {
                if *v > 0 {
                    *acc.classes.entry(format!("cases_with_{k}")).or_insert(0) += 1;
                }
            }
            *acc.classes.entry(format!("kind_{:?}", case.cfg.kind)).or_insert(0) += 1;
            let nt = if is_pair { ran.stats.get("pair_with_decisions_after_extra_calls") > 0 } else { gen::nontrivial(&prop, &ran.stats) };
            if nt && ran.violation.as_ref().map_or(true, |v| v.prop != prop) {
                if acc.hashes.insert(case.hash64()) && acc.sample_cases.len() < 3 {
                    acc.sample_cases.push(case.clone());
                }
            }
        }
        match ran.violation {
            None => Ok(()),
            Some(v) if v.prop == prop => {
                acc.failed = true;
                Err(TestCaseError::fail(v.msg))
            }
            Some(v) if v.prop == "HARNESS" => {
                acc.failed = true;
                acc.harness_error = Some(v.msg.clone());
                Err(TestCaseError::fail(v.msg))
            }
            Some(v) => {
                if counting {
                    *acc.foreign.entry(v.prop.to_string()).or_insert(0) += 1;
                    if ran.panicked {
                        acc.aborted += 1;
                    }
                }
                Ok(())
            }
        }
    });
    let _ = std::fs::remove_file(&inflight);

    let acc = acc.into_inner();
    let mut res = WorkerResult {
        evaluations: acc.evaluations,
        nontrivial_hashes: acc.hashes.iter().copied().collect(),
        classes: acc.classes,
        foreign: acc.foreign,
        aborted_by_panic: acc.aborted,
        ..Default::default()
    };
    if acc.excluded_u4 > 0 {
        res.excluded.insert("U4".into(), acc.excluded_u4);
    }
    if acc.excluded_s6 > 0 {
        res.excluded.insert("S6".into(), acc.excluded_s6);
    }
    for c in &acc.sample_cases {
        res.samples.push(render_sample(&a.prop, c));
    }
    match result {
        Ok(()) => {}
        Err(TestError::Fail(_reason, case)) => {
            if let Some(e) = acc.harness_error {
                res.error = Some(e);
            } else {
                res.violation = Some(make_found(&a.prop, &case, avoid_s6));
            }
        }
        Err(TestError::Abort(r)) => res.error = Some(format!("proptest aborted: {r}")),
    }
    res.wall_s = t0.elapsed().as_secs_f64();
    res
}

pub fn make_found(prop: &str, case: &Case, avoid_s6: bool) -> Found {
    let (ran, engine) = rerun_with_trace(prop, case, avoid_s6);
    let msg = ran.violation.as_ref().map(|v| format!("[{} at step {}] {}", v.prop, v.step, v.msg)).unwrap_or_else(|| "violation did not reproduce on re-execution".into());
    Found { property: prop.to_string(), message: msg, engine, case: serde_json::to_value(case).unwrap(), trace: ran.trace, avoid: if avoid_s6 { vec!["S6".to_string()] } else { vec![] } }
}

pub fn rerun_with_trace(prop: &str, case: &Case, avoid_s6: bool) -> (Ran, String) {
    if prop == "C15" {
        let mut e = 0;
        (run_pair_case(case, false, avoid_s6, &mut e, true), "seq-pair".into())
    } else {
        (run_seq_case(case, Flags::for_prop(prop), true, avoid_s6), "seq".into())
    }
}

fn render_sample(prop: &str, case: &Case) -> serde_json::Value {
    let (ran, _) = rerun_with_trace(prop, case, true);
    let mut t = ran.trace;
    let n = t.len();
    if n > 40 {
        t.truncate(40);
        t.push(format!("... ({} more steps)", n - 40));
    }
    serde_json::json!({ "config": case.cfg, "history": t, "extra_observations": case.extra })
}

#[allow(dead_code)]
pub fn shrink_manually<S: Strategy>(_s: &S, _runner: &mut TestRunner) -> Option<Box<dyn ValueTree<Value = S::Value>>> {
    None
}

pub fn write_result(dir: &Path, idx: u64, r: &WorkerResult) {
    let p = dir.join(format!("worker-{idx}.result.json"));
    std::fs::write(p, serde_json::to_vec(r).unwrap()).expect("write worker result");
}
