//! Soft time budget of a worker process. The supervisor's watchdog is a hard limit that
//! turns a hang into "inconclusive"; a worker that is merely slow (loaded machine) must not
//! end there. Once the soft budget (a fraction of the watchdog) is used up, a worker stops
//! starting new cases, reports what it explored and how many generated cases it skipped.
//! A time budget hit is never a violation and never a failure of the check.

use std::sync::atomic::{AtomicU64, Ordering};
use std::sync::OnceLock;
use std::time::{Duration, Instant};

static START: OnceLock<Instant> = OnceLock::new();
static SOFT: OnceLock<Option<Duration>> = OnceLock::new();
static SKIPPED: AtomicU64 = AtomicU64::new(0);

pub fn init(soft_s: Option<u64>) {
    let _ = START.set(Instant::now());
    let _ = SOFT.set(soft_s.map(Duration::from_secs));
}

/// true once the soft budget is used up
pub fn exhausted() -> bool {
    match (START.get(), SOFT.get()) {
        (Some(t0), Some(Some(d))) => t0.elapsed() >= *d,
        _ => false,
    }
}

/// true once the given fraction of the soft budget is used up
pub fn used(fraction: f64) -> bool {
    match (START.get(), SOFT.get()) {
        (Some(t0), Some(Some(d))) => t0.elapsed().as_secs_f64() >= d.as_secs_f64() * fraction,
        _ => false,
    }
}

/// called for every generated case (or enumeration step) that is not run any more
pub fn skip() {
    SKIPPED.fetch_add(1, Ordering::Relaxed);
}

pub fn skipped() -> u64 {
    SKIPPED.load(Ordering::Relaxed)
}
