//! Sequential interpreter: applies a history to the real cache and to the
//! reference model, and evaluates the enabled monitors after every step.
//!
//! Terminology: a *quiescent point* is a moment at which the cache's outcome is
//! fully defined: after every operation on the single-threaded cache; on the
//! concurrent cache after an explicit `sync()` that left both queues empty. The
//! *window* is the list of operations issued since the previous quiescent point.

use crate::subject::{self, weight_of, Snap, Subject};
use crate::track::Reg;
use crate::types::*;
use std::collections::{BTreeMap, BTreeSet, HashMap};
use std::sync::Arc;

/// Which assertions are active. One check enables only its own property's
/// monitors, so that a defect of one property cannot end another's campaign.
#[derive(Clone, Copy, Debug, Default)]
pub struct Flags {
    pub stale: bool,      // C01: stale / phantom value
    pub inval: bool,      // C01, C07: invalidated value shown
    pub ttl: bool,        // C05
    pub tti: bool,        // C06
    pub complete: bool,   // C03, C07 precise (only where capacity cannot bind)
    pub fits: bool,       // C03 (iii)
    pub cap: bool,        // C04
    pub counters: bool,   // C10
    pub drops: bool,      // C11
    pub walk: bool,       // C08
    pub lru: bool,        // C12
    pub admit: bool,      // C13
    pub sketch: bool,     // C14 cache clause
    pub iter_exact: bool, // C16
    pub term: bool,       // C09
    /// C03: an entry the lock-step model keeps is gone although nothing had to leave for capacity
    pub loss: bool,
    /// which property a completeness failure is reported under
    pub complete_as: &'static str,
    pub inval_as: &'static str,
    /// report ttl/tti violations under this property instead of C05/C06
    pub expired_as: Option<&'static str>,
}

impl Flags {
    pub fn for_prop(p: &str) -> Flags {
        let mut f = Flags {
            complete_as: "C03",
            inval_as: "C01",
            expired_as: None,
            ..Flags::default()
        };
        match p {
            "C01" => {
                f.stale = true;
                f.inval = true;
            }
            "C03" => {
                f.complete = true;
                f.fits = true;
                f.loss = true;
            }
            "C04" => f.cap = true,
            "C05" => f.ttl = true,
            "C06" => f.tti = true,
            "C07" => {
                f.inval = true;
                f.inval_as = "C07";
                f.complete = true;
                f.complete_as = "C07";
            }
            "C08" => f.walk = true,
            "C09" => f.term = true,
            "C10" => f.counters = true,
            "C11" => f.drops = true,
            "C12" => f.lru = true,
            "C13" => f.admit = true,
            "C14" => f.sketch = true,
            "C16" => {
                f.iter_exact = true;
                f.ttl = true;
                f.tti = true;
                f.expired_as = Some("C16");
            }
            "ALL" => {
                f = Flags {
                    stale: true,
                    inval: true,
                    ttl: true,
                    tti: true,
                    complete: true,
                    fits: true,
                    cap: true,
                    counters: true,
                    drops: true,
                    walk: true,
                    lru: true,
                    admit: true,
                    sketch: true,
                    iter_exact: true,
                    term: true,
                    loss: true,
                    complete_as: "C03",
                    inval_as: "C01",
                    expired_as: None,
                }
            }
            _ => {}
        }
        f
    }
    fn predictive(&self) -> bool {
        self.lru || self.admit || self.loss
    }
}

#[derive(Clone, Debug)]
pub struct Violation {
    pub prop: &'static str,
    pub step: usize,
    pub msg: String,
}

/// What happened in a case: used for the non-trivial rules and class histograms.
#[derive(Clone, Debug, Default)]
pub struct Stats {
    pub c: BTreeMap<&'static str, u64>,
}

impl Stats {
    pub fn inc(&mut self, k: &'static str) {
        *self.c.entry(k).or_insert(0) += 1;
    }
    pub fn add(&mut self, k: &'static str, n: u64) {
        *self.c.entry(k).or_insert(0) += n;
    }
    pub fn get(&self, k: &str) -> u64 {
        self.c.get(k).copied().unwrap_or(0)
    }
}

#[derive(Clone, Debug)]
struct MEnt {
    seq: u32,
    /// raw weight field of the value
    w: u32,
    /// weight the configured weigher assigns
    mw: u32,
    t_mod: u64,
    acc_hi: u64,
    acc_lo: u64,
}

#[derive(Clone, Debug, Default)]
struct MKey {
    latest_seq: Option<u32>,
    cur: Option<MEnt>,
    was_invalidated: bool,
    /// sync: ops of this key issued since the last quiescent point
    pend_writes: u32,
    pend_reads: u32,
    updated: bool,
    probe_before: bool,
    pure_since_alive: u32,
}

#[derive(Clone, Debug)]
enum Prim {
    Insert { k: u32, w: u32 },
    Get { k: u32 },
    Contains { k: u32 },
    Iter,
    Invalidate { k: u32 },
    InvalidateAll,
    InvalidateIf { p: Pred },
    Advance { ns: u64 },
    AdvanceTo { k: u32, which: Which, delta: i8 },
    Sync,
    Burst { n: u32, w: u32, gets: bool },
    Counters,
    GetFresh { sel: u16 },
    ContainsFresh { sel: u16 },
    IterAdvance { after: u8, ns: u64 },
    BurstInvalidate { n: u32 },
    DebugFmt,
    IterInvalidateAll { after: u8 },
    Handle { sel: u8 },
}

fn expand(ops: &[Op]) -> Vec<(usize, Prim)> {
    let mut v = Vec::new();
    for (i, op) in ops.iter().enumerate() {
        match op.clone() {
            Op::Insert { k, w } => v.push((i, Prim::Insert { k, w })),
            Op::Get { k } => v.push((i, Prim::Get { k })),
            Op::Contains { k } => v.push((i, Prim::Contains { k })),
            Op::Iter => v.push((i, Prim::Iter)),
            Op::Invalidate { k } => v.push((i, Prim::Invalidate { k })),
            Op::InvalidateAll => v.push((i, Prim::InvalidateAll)),
            Op::InvalidateIf { p } => v.push((i, Prim::InvalidateIf { p })),
            Op::Advance { ns } => v.push((i, Prim::Advance { ns })),
            Op::AdvanceTo { k, which, delta } => v.push((i, Prim::AdvanceTo { k, which, delta })),
            Op::Sync => v.push((i, Prim::Sync)),
            Op::EnterBeyond => {
                v.push((i, Prim::Sync));
                v.push((i, Prim::Advance { ns: 501 * MS }));
            }
            Op::SyncedInsert { k, w } => {
                v.push((i, Prim::Sync));
                v.push((i, Prim::Insert { k, w }));
                v.push((i, Prim::Sync));
            }
            Op::Burst { n, w, gets } => v.push((i, Prim::Burst { n, w, gets })),
            Op::Counters => v.push((i, Prim::Counters)),
            Op::GetFresh { sel } => v.push((i, Prim::GetFresh { sel })),
            Op::ContainsFresh { sel } => v.push((i, Prim::ContainsFresh { sel })),
            Op::IterAdvance { after, ns } => v.push((i, Prim::IterAdvance { after, ns })),
            Op::BurstInvalidate { n } => v.push((i, Prim::BurstInvalidate { n })),
            Op::DebugFmt => v.push((i, Prim::DebugFmt)),
            Op::IterInvalidateAll { after } => v.push((i, Prim::IterInvalidateAll { after })),
            Op::Handle { sel } => v.push((i, Prim::Handle { sel })),
        }
    }
    v
}

/// Sum over keys of the largest weight ever inserted for that key (+ all burst
/// inserts): with correct accounting the resident weight can never exceed this.
pub fn weight_bound(case: &Case) -> u64 {
    let mut maxw: HashMap<u32, u64> = HashMap::new();
    let mut burst: u64 = 0;
    for op in &case.ops {
        match op {
            Op::Insert { k, w } | Op::SyncedInsert { k, w } => {
                let mw = weight_of(&case.cfg, *w) as u64;
                let e = maxw.entry(*k).or_insert(0);
                if mw > *e {
                    *e = mw;
                }
            }
            Op::Burst { n, w, gets } => {
                if !*gets {
                    burst += *n as u64 * weight_of(&case.cfg, *w) as u64;
                }
            }
            _ => {}
        }
    }
    maxw.values().sum::<u64>() + burst
}

#[derive(Clone, Debug)]
struct WindowOp {
    step: usize,
    prim: Prim,
    now: u64,
    /// predictive model: residents the model considers expired before the op ran
    expired_before: Vec<u32>,
    /// predictive model: residents matched by an invalidate_entries_if predicate
    matched: Vec<u32>,
    /// concurrent cache: a maintenance run took place inside the operation (before the
    /// operation's own read/write was queued)
    maint_inside: bool,
    /// a get that returned a value
    hit: bool,
    /// insert: the key's previous entry was possibly expired or hidden when the operation began
    key_maybe_dead_before: bool,
    /// the key of the operation was physically in the map before the operation
    in_map_before: bool,
    /// queue lengths (reads, writes) and physically held keys after the operation
    rq_after: usize,
    wq_after: usize,
    phys_after: Vec<u32>,
    /// popularity estimates of the key universe read after the operation (only when a
    /// maintenance run took place inside it: they are the estimates that run decided with)
    est_after: Option<HashMap<u32, u8>>,
}

pub struct Exec<'a> {
    pub cfg: &'a Cfg,
    flags: Flags,
    sub: Option<Box<dyn Subject>>,
    reg: Arc<Reg>,
    now: u64,
    keys: HashMap<u32, MKey>,
    va: Option<u64>,
    seq_t: Vec<u64>,
    seq_k: Vec<u32>,
    next_burst_key: u32,
    cap_never_binds: bool,
    pub stats: Stats,
    pub trace: Vec<String>,
    record_trace: bool,
    /// observable results of every op (C15 compares these between h and h')
    pub results: Vec<(usize, String)>,
    /// snapshot after the previous primitive
    pre: Snap,
    /// snapshot at the previous quiescent point, and what was issued since
    q_prev: Snap,
    window: Vec<WindowOp>,
    /// popularity estimates read at the previous quiescent point
    q_est: HashMap<u32, u8>,
    // C04
    maint_inside_op: bool,
    last_get_hit: bool,
    key_maybe_dead_op: bool,
    /// sum of in-place growths since the previous quiescent point
    window_growth: u64,
    allowed_excess: u64,
    /// concurrent cache: sum of in-place weight growths since the cache was last seen within capacity
    sync_growth: u64,
    // C12/C13 predictive model: resident keys LRU -> MRU with model weights
    rec: Vec<(u32, u32)>,
    pred_ok: bool,
    // C14
    est_prev: HashMap<u32, u8>,
    unaccounted_gets: u64,
    resets_prev: u32,
    /// C14 lower bound: estimates when no read was queued last, gets per key since then,
    /// and whether the bound is decidable for the stretch since then
    sk_settled: HashMap<u32, u8>,
    sk_gets: HashMap<u32, u32>,
    sk_undecidable: bool,
    sk_enabled_at_settle: bool,
    removal_causes: BTreeSet<&'static str>,
    burst_total: u64,
    all_windows_single: bool,
    order_changed_since_eviction: bool,
    /// set while the physical resident weight exceeds max_capacity (finding U4)
    pub over_capacity_now: bool,
    pub final_snap: Option<Snap>,
    /// per original op index: was the physical weight above max_capacity after it
    pub over_cap_after: Vec<(usize, bool)>,
    pure_check: bool,
    pure_est: HashMap<u32, u8>,
    /// open known findings whose trigger is avoided by construction
    avoid_s6: bool,
}

macro_rules! viol {
    ($prop:expr, $step:expr, $($arg:tt)*) => {
        return Err(Violation { prop: $prop, step: $step, msg: format!($($arg)*) })
    };
}

impl<'a> Exec<'a> {
    pub fn new(case: &'a Case, flags: Flags, record_trace: bool) -> Exec<'a> {
        let reg = Reg::new();
        let sub = subject::build(&case.cfg, &reg);
        let bound = weight_bound(case);
        let cap_never_binds = match case.cfg.cap {
            None => true,
            Some(c) => c >= bound,
        };
        let pre = sub.snapshot();
        let mut ex = Exec {
            cfg: &case.cfg,
            flags,
            sub: Some(sub),
            reg,
            now: 0,
            keys: HashMap::new(),
            va: None,
            seq_t: Vec::new(),
            seq_k: Vec::new(),
            next_burst_key: 1_000_000,
            cap_never_binds,
            stats: Stats::default(),
            trace: Vec::new(),
            record_trace,
            results: Vec::new(),
            q_prev: pre.clone(),
            pre,
            window: Vec::new(),
            q_est: HashMap::new(),
            maint_inside_op: false,
            last_get_hit: false,
            key_maybe_dead_op: false,
            window_growth: 0,
            allowed_excess: 0,
            sync_growth: 0,
            rec: Vec::new(),
            pred_ok: true,
            est_prev: HashMap::new(),
            unaccounted_gets: 0,
            resets_prev: 0,
            sk_settled: HashMap::new(),
            sk_gets: HashMap::new(),
            sk_undecidable: false,
            sk_enabled_at_settle: false,
            removal_causes: BTreeSet::new(),
            burst_total: 0,
            all_windows_single: true,
            order_changed_since_eviction: false,
            over_capacity_now: false,
            final_snap: None,
            over_cap_after: Vec::new(),
            pure_check: false,
            pure_est: HashMap::new(),
            avoid_s6: false,
        };
        if !ex.cap_never_binds {
            ex.stats.inc("cap_binds");
        }
        ex
    }

    /// C15: also require that contains_key / iter leave the concurrent cache's
    /// physical state, queues and estimates untouched.
    /// Known finding S6 (open): on the concurrent cache a successful get and an
    /// invalidate_all at the same clock reading leave a hidden entry that is never
    /// purged. With `on`, the interpreter steps the clock by 1 ns before such an
    /// invalidate_all (counted as `excluded_S6`), so that the search continues
    /// behind the finding.
    pub fn set_avoid_s6(&mut self, on: bool) {
        self.avoid_s6 = on;
    }

    pub fn set_pure_check(&mut self, on: bool) {
        self.pure_check = on;
    }

    fn sub(&mut self) -> &mut Box<dyn Subject> {
        self.sub.as_mut().unwrap()
    }
    fn subr(&self) -> &dyn Subject {
        self.sub.as_ref().unwrap().as_ref()
    }
    fn is_sync(&self) -> bool {
        self.cfg.kind == Kind::Sync
    }

    // ---- model predicates -------------------------------------------------

    fn cur(&self, k: u32) -> Option<&MEnt> {
        self.keys.get(&k).and_then(|m| m.cur.as_ref())
    }

    fn dead_by_inval(&self, k: u32) -> bool {
        match self.cur(k) {
            None => true,
            Some(e) => matches!(self.va, Some(va) if e.t_mod < va),
        }
    }

    /// definitely not observable
    fn dead_hi(&self, k: u32) -> bool {
        if self.dead_by_inval(k) {
            return true;
        }
        self.expired_hi(k)
    }

    /// must be observable (when capacity cannot interfere)
    fn live_lo(&self, k: u32) -> bool {
        if self.dead_by_inval(k) {
            return false;
        }
        let e = self.cur(k).unwrap();
        if let Some(d) = self.cfg.ttl {
            if e.t_mod + d <= self.now {
                return false;
            }
        }
        if let Some(d) = self.cfg.tti {
            if e.acc_lo + d <= self.now {
                return false;
            }
        }
        true
    }

    /// expired by the clock, judged with the upper access bound
    fn expired_hi(&self, k: u32) -> bool {
        match self.cur(k) {
            None => false,
            Some(e) => {
                self.cfg.ttl.map_or(false, |d| e.t_mod + d <= self.now)
                    || self.cfg.tti.map_or(false, |d| e.acc_hi + d <= self.now)
            }
        }
    }

    /// expired by the clock, judged with the lower access bound
    fn expired_with_lower_bound(&self, k: u32) -> bool {
        match self.cur(k) {
            None => false,
            Some(e) => {
                self.cfg.ttl.map_or(false, |d| e.t_mod + d <= self.now)
                    || self.cfg.tti.map_or(false, |d| e.acc_lo + d <= self.now)
            }
        }
    }

    fn deadline(&self, k: u32, which: Which) -> Option<u64> {
        let e = self.cur(k)?;
        match which {
            Which::Ttl => self.cfg.ttl.map(|d| e.t_mod + d),
            Which::Tti => self.cfg.tti.map(|d| e.acc_hi + d),
        }
    }

    // ---- lookups ------------------------------------------------------------

    fn note_probe(&mut self, k: u32, shown: bool) {
        let now = self.now;
        let dls = [self.deadline(k, Which::Ttl), self.deadline(k, Which::Tti)];
        let pending = self
            .keys
            .get(&k)
            .map_or(false, |m| m.pend_writes + m.pend_reads > 0)
            && self.is_sync();
        let (updated, reins) = self
            .keys
            .get(&k)
            .map_or((false, false), |m| (m.updated, m.was_invalidated && m.cur.is_some()));
        self.stats.inc("lookups");
        if self.pre.read_q + self.pre.write_q > 0 {
            self.stats.inc("lookups_with_ops_pending");
        }
        if pending && updated {
            self.stats.inc("lookup_of_updated_key_with_its_ops_pending");
        }
        if reins {
            self.stats.inc("lookup_after_invalidate_and_reinsert");
        }
        if pending && self.keys.get(&k).map_or(false, |m| m.was_invalidated) {
            self.stats.inc("lookup_of_invalidated_key_with_its_ops_pending");
        }
        let mut boundary_pair = false;
        let mut zero_dur = false;
        if let Some(m) = self.keys.get_mut(&k) {
            for dl in dls.into_iter().flatten() {
                if now + 1 == dl {
                    m.probe_before = true;
                    if shown {
                        // observed alive one tick before its deadline
                    }
                }
                if (now == dl || now == dl + 1) && m.probe_before {
                    boundary_pair = true;
                }
                if now == dl && m.cur.as_ref().map_or(false, |e| e.t_mod == now) {
                    zero_dur = true;
                }
            }
        }
        if boundary_pair {
            self.stats.inc("boundary_pair_probed");
        }
        if zero_dur {
            self.stats.inc("zero_duration_probe");
        }
        if let (Some(d), Some(e)) = (self.cfg.tti, self.cur(k)) {
            let m = &self.keys[&k];
            if m.pure_since_alive > 0 && now >= e.acc_hi + d {
                self.stats.inc("tti_probe_after_only_pure_observations");
            }
        }
    }

    fn check_shown(&mut self, step: usize, via: &'static str, k: u32, seq: u32) -> Result<(), Violation> {
        let now = self.now;
        let mk = self.keys.get(&k).cloned().unwrap_or_default();
        let known = (seq as usize) < self.seq_k.len() && self.seq_k[seq as usize] == k;
        if self.flags.stale {
            if !known {
                viol!("C01", step, "{via}(k{k}) showed v{seq}, which was never inserted for that key (phantom)");
            }
            if mk.latest_seq != Some(seq) {
                viol!("C01", step, "{via}(k{k}) showed v{seq} but the most recent insert for that key is v{} (stale)", mk.latest_seq.unwrap_or(u32::MAX));
            }
        }
        if self.flags.inval && known && mk.latest_seq == Some(seq) {
            match &mk.cur {
                None => {
                    viol!(self.flags.inval_as, step, "{via}(k{k}) showed v{seq} although that entry was invalidated");
                }
                Some(e) => {
                    if let Some(va) = self.va {
                        if e.t_mod < va {
                            viol!(self.flags.inval_as, step,
                                "{via}(k{k}) showed v{seq} inserted at {} although invalidate_all ran at the later reading {}", e.t_mod, va);
                        }
                    }
                }
            }
        }
        if self.flags.ttl && known {
            if let Some(d) = self.cfg.ttl {
                let t = self.seq_t[seq as usize];
                if t + d <= now {
                    viol!(self.flags.expired_as.unwrap_or("C05"), step, "{via}(k{k}) showed v{seq} inserted at {t} with ttl {} at reading {now} (>= {})", fmt_ns(d), t + d);
                }
            }
        }
        if self.flags.tti {
            if let (Some(d), Some(e)) = (self.cfg.tti, &mk.cur) {
                if e.acc_hi + d <= now {
                    viol!(self.flags.expired_as.unwrap_or("C06"), step, "{via}(k{k}) showed v{seq} at reading {now} although its last insert/update/successful get was at {} and tti is {}", e.acc_hi, fmt_ns(d));
                }
            }
        }
        Ok(())
    }

    fn note_confirmation(&mut self, k: u32) {
        if self.complete_applicable() && self.live_lo(k) {
            self.stats.inc("completeness_confirmations");
            if self.stats.get("invalidated_entries") + self.stats.get("expired_entries_purged") > 0 {
                self.stats.inc("completeness_confirmed_after_removal");
            }
        }
    }

    fn complete_applicable(&self) -> bool {
        self.flags.complete && self.cap_never_binds
    }

    fn check_missing(&mut self, step: usize, via: &'static str, k: u32) -> Result<(), Violation> {
        if self.complete_applicable() && self.live_lo(k) {
            let e = self.cur(k).cloned().unwrap();
            viol!(self.flags.complete_as, step,
                "{via}(k{k}) shows nothing, but v{} (inserted at {}, last access >= {}) is live at reading {}; ttl={:?} tti={:?} invalidate_all@{:?}; capacity {:?} cannot bind in this history",
                e.seq, e.t_mod, e.acc_lo, self.now, self.cfg.ttl, self.cfg.tti, self.va, self.cfg.cap);
        }
        Ok(())
    }

    // ---- the main loop ---------------------------------------------------------

    pub fn run(&mut self, case: &Case) -> Result<(), Violation> {
        let prims = expand(&case.ops);
        if self.flags.sketch || self.flags.predictive() {
            self.read_estimates_into_prev();
            self.q_est = self.est_prev.clone();
        }
        for (step, prim) in prims {
            self.step(step, prim)?;
        }
        self.finish(case)
    }

    fn tr(&mut self, s: String) {
        if self.record_trace {
            self.trace.push(format!("[t={}] {}", fmt_ns(self.now), s));
        }
    }

    fn universe(&self) -> Vec<u32> {
        (0..self.cfg.nkeys).collect()
    }

    fn read_estimates_into_prev(&mut self) {
        let mut m = HashMap::new();
        for k in self.universe() {
            m.insert(k, self.subr().freq(k));
        }
        // also residents outside the universe are irrelevant (burst keys)
        self.est_prev = m;
    }

    fn step(&mut self, step: usize, prim: Prim) -> Result<(), Violation> {
        // lookups of burst keys are resolved against the bursts executed so far
        let fresh = |sel: u16, total: u32| 1_000_000 + ((sel as u64 * total.max(1) as u64) >> 16) as u32;
        let total_fresh = self.next_burst_key - 1_000_000;
        let prim = match prim {
            Prim::GetFresh { sel } => {
                self.stats.inc("lookups_of_burst_keys");
                Prim::Get { k: fresh(sel, total_fresh) }
            }
            Prim::ContainsFresh { sel } => {
                self.stats.inc("lookups_of_burst_keys");
                Prim::Contains { k: fresh(sel, total_fresh) }
            }
            p => p,
        };
        let now = self.now;
        let mut is_m_op = false; // unsync: op that runs maintenance at its start
        let mut explicit_sync = false;
        let mut growth: Option<u64> = None;
        let mut gets_in_op: u64 = 0;
        let mut touches_sketch = false; // may legally change estimates
        let mut expired_before: Vec<u32> = Vec::new();
        let mut matched: Vec<u32> = Vec::new();
        if self.flags.predictive() && self.pred_ok {
            expired_before = self.rec.iter().map(|x| x.0).filter(|k| self.expired_hi(*k)).collect();
            if let Prim::InvalidateIf { p } = &prim {
                matched = self.pre.entries.iter().filter(|e| p.eval(e.k, e.seq, e.w_val)).map(|e| e.k).collect();
            }
        }
        crate::sched_hooks::reset_counters();
        self.key_maybe_dead_op = match &prim {
            Prim::Insert { k, .. } => self.cur(*k).is_some() && !self.live_lo(*k),
            _ => false,
        };
        match prim.clone() {
            Prim::Insert { k, w } => {
                is_m_op = true;
                touches_sketch = self.is_sync();
                let seq = self.seq_t.len() as u32;
                self.seq_t.push(now);
                self.seq_k.push(k);
                let mw = weight_of(self.cfg, w);
                let phys_before = self.pre.get(k).map(|e| weight_of(self.cfg, e.w_val));
                self.sub().insert(k, seq, w);
                let m = self.keys.entry(k).or_default();
                let was_update = m.cur.is_some();
                let old_mw = m.cur.as_ref().map(|e| e.mw);
                m.latest_seq = Some(seq);
                m.cur = Some(MEnt { seq, w, mw, t_mod: now, acc_hi: now, acc_lo: now });
                m.pend_writes += 1;
                m.probe_before = false;
                m.pure_since_alive = 0;
                if was_update {
                    m.updated = true;
                    self.stats.inc("updates");
                    if old_mw != Some(mw) {
                        self.stats.inc("weight_changing_updates");
                    }
                }
                if let Some(pw) = phys_before {
                    if mw > pw {
                        growth = Some((mw - pw) as u64);
                        self.stats.inc("growing_updates");
                    }
                }
                if let Some(cap) = self.cfg.cap {
                    if mw as u64 > cap {
                        self.stats.inc("oversized_inserts");
                    }
                }
                self.stats.inc("inserts");
                self.results.push((step, format!("insert(k{k},v{seq},w{w})")));
                self.tr(format!("insert(k{k}, v{seq}, w={w})"));
            }
            Prim::Get { k } => {
                is_m_op = true;
                touches_sketch = true;
                gets_in_op = 1;
                let r = self.sub().get(k);
                self.last_get_hit = r.is_some();
                self.note_probe(k, r.is_some());
                self.tr(format!("get(k{k}) -> {:?}", r.map(|(s, _)| format!("v{s}"))));
                self.results.push((step, format!("get(k{k})={:?}", r.map(|x| x.0))));
                match r {
                    Some((seq, _w)) => {
                        self.check_shown(step, "get", k, seq)?;
                        self.stats.inc("get_hits");
                        self.note_confirmation(k);
                        let nowv = self.now;
                        if let Some(m) = self.keys.get_mut(&k) {
                            m.pend_reads += 1;
                            m.pure_since_alive = 0;
                            if let Some(e) = m.cur.as_mut() {
                                if e.seq == seq {
                                    e.acc_hi = nowv;
                                    if self.cfg.kind == Kind::Unsync {
                                        e.acc_lo = nowv;
                                    }
                                }
                            }
                        }
                    }
                    None => {
                        self.stats.inc("get_misses");
                        self.check_missing(step, "get", k)?;
                    }
                }
            }
            Prim::Contains { k } => {
                is_m_op = true;
                let r = self.sub().contains(k);
                self.note_probe(k, r);
                self.tr(format!("contains_key(k{k}) -> {r}"));
                self.results.push((step, format!("contains(k{k})={r}")));
                if let Some(m) = self.keys.get_mut(&k) {
                    if m.cur.is_some() {
                        m.pure_since_alive += 1;
                    }
                }
                if r {
                    self.note_confirmation(k);
                    // what it exhibits is the value physically stored for the key
                    let snap = self.subr().snapshot();
                    match snap.get(k) {
                        Some(e) => {
                            let seq = e.seq;
                            self.check_shown(step, "contains_key", k, seq)?
                        }
                        None => {
                            if self.flags.stale {
                                viol!("C01", step, "contains_key(k{k}) is true but the cache holds no entry for the key");
                            }
                        }
                    }
                } else {
                    self.check_missing(step, "contains_key", k)?;
                }
            }
            Prim::IterInvalidateAll { after } => {
                // known finding S6: same avoidance as for a plain invalidate_all
                if self.is_sync() && self.avoid_s6 {
                    let trigger = self.keys.values().any(|m| m.cur.as_ref().map_or(false, |e| e.acc_hi == now && e.t_mod < now));
                    if trigger {
                        self.sub().advance(1);
                        self.now += 1;
                        self.stats.inc("excluded_S6");
                        self.tr("advance 1ns (avoiding known finding S6)".into());
                    }
                }
                let now = self.now;
                if let Some((a, b)) = self.sub().iter_with_invalidate_all(after as usize) {
                    for (k, seq, _) in &a {
                        self.check_shown(step, "iter", *k, *seq)?;
                    }
                    // model effect of invalidate_all on the concurrent cache
                    self.va = Some(now);
                    let mut n = 0;
                    for m in self.keys.values_mut() {
                        if let Some(e) = &m.cur {
                            if e.t_mod < now {
                                m.was_invalidated = true;
                                n += 1;
                            }
                        }
                    }
                    if n > 0 {
                        self.removal_causes.insert("invalidate_all");
                        self.stats.add("invalidated_entries", n);
                    }
                    for (k, seq, _) in &b {
                        self.check_shown(step, "iter (continued after invalidate_all returned)", *k, *seq)?;
                    }
                    if !b.is_empty() {
                        self.stats.inc("iterations_continued_after_invalidate_all");
                    }
                    self.tr(format!("iter() -> first {:?}; invalidate_all(); then {:?}", a.iter().map(|(k, s, _)| format!("k{k}=v{s}")).collect::<Vec<_>>(), b.iter().map(|(k, s, _)| format!("k{k}=v{s}")).collect::<Vec<_>>()));
                    self.results.push((step, "iter_invalidate_all".into()));
                }
            }
            Prim::Handle { sel } => {
                let what = self.sub().handle_op(sel);
                if what != "n/a" {
                    self.stats.inc("handle_operations");
                    self.tr(format!("handle: {what}"));
                }
            }
            Prim::DebugFmt => {
                // the Debug output is an iteration: same oracle, under another entry point
                let mut pairs = self.sub().debug_pairs();
                pairs.sort();
                self.tr(format!("format!(\"{{:?}}\", cache) lists {:?}", pairs.iter().map(|(k, s)| format!("k{k}=v{s}")).collect::<Vec<_>>()));
                let items: Vec<(u32, u32, u32)> = pairs.iter().map(|(k, s)| (*k, *s, 0)).collect();
                self.check_iter(step, &items)?;
            }
            Prim::Iter => {
                let mut items = self.sub().iter();
                items.sort();
                self.tr(format!("iter() -> {:?}", items.iter().map(|(k, s, _)| format!("k{k}=v{s}")).collect::<Vec<_>>()));
                self.results.push((step, format!("iter={:?}", items.iter().map(|x| (x.0, x.1)).collect::<Vec<_>>())));
                self.check_iter(step, &items)?;
            }
            Prim::Invalidate { k } => {
                is_m_op = true;
                touches_sketch = self.is_sync();
                let had_pending = self.keys.get(&k).map_or(false, |m| m.pend_writes + m.pend_reads > 0) && self.is_sync();
                self.sub().invalidate(k);
                if let Some(m) = self.keys.get_mut(&k) {
                    if m.cur.is_some() {
                        m.was_invalidated = true;
                        self.removal_causes.insert("invalidate");
                        self.stats.inc("invalidated_entries");
                        if had_pending {
                            self.stats.inc("invalidation_with_ops_of_target_pending");
                        }
                    }
                    m.cur = None;
                    m.pend_writes += 1;
                }
                self.results.push((step, format!("invalidate(k{k})")));
                self.tr(format!("invalidate(k{k})"));
            }
            Prim::InvalidateAll => {
                if self.is_sync() {
                    let trigger = self.keys.values().any(|m| m.cur.as_ref().map_or(false, |e| e.acc_hi == now && e.t_mod < now));
                    if trigger {
                        self.stats.inc("s6_trigger_states");
                        if self.avoid_s6 {
                            self.sub().advance(1);
                            self.now += 1;
                            self.stats.inc("excluded_S6");
                            self.tr("advance 1ns (avoiding known finding S6)".into());
                        }
                    }
                }
                let now = self.now;
                let any_pending = self.is_sync() && (self.pre.read_q + self.pre.write_q > 0);
                self.sub().invalidate_all();
                let mut n = 0;
                if self.is_sync() {
                    // hides everything inserted at a strictly earlier clock reading
                    self.va = Some(now);
                    for m in self.keys.values_mut() {
                        if let Some(e) = &m.cur {
                            if e.t_mod < now {
                                m.was_invalidated = true;
                                n += 1;
                            }
                        }
                    }
                } else {
                    for m in self.keys.values_mut() {
                        if m.cur.is_some() {
                            m.was_invalidated = true;
                            n += 1;
                        }
                        m.cur = None;
                    }
                }
                if n > 0 {
                    self.removal_causes.insert("invalidate_all");
                    self.stats.add("invalidated_entries", n);
                    if any_pending {
                        self.stats.inc("invalidation_with_ops_of_target_pending");
                    }
                }
                self.results.push((step, "invalidate_all".into()));
                self.tr("invalidate_all()".into());
            }
            Prim::InvalidateIf { p } => {
                if self.sub().invalidate_if(p) {
                    let mut n = 0;
                    for (k, m) in self.keys.iter_mut() {
                        if let Some(e) = &m.cur {
                            if p.eval(*k, e.seq, e.w) {
                                m.cur = None;
                                m.was_invalidated = true;
                                n += 1;
                            }
                        }
                    }
                    if n > 0 {
                        self.removal_causes.insert("invalidate_if");
                        self.stats.add("invalidated_entries", n);
                    }
                    self.results.push((step, format!("invalidate_if({p:?})")));
                    self.tr(format!("invalidate_entries_if({p:?})"));
                }
            }
            Prim::Advance { ns } => {
                self.sub().advance(ns);
                self.now += ns;
                self.tr(format!("advance {}", fmt_ns(ns)));
            }
            Prim::AdvanceTo { k, which, delta } => {
                if let Some(dl) = self.deadline(k, which) {
                    let target = (dl as i128 + delta as i128).max(0) as u64;
                    if target > now {
                        let ns = target - now;
                        self.sub().advance(ns);
                        self.now += ns;
                        self.stats.inc("directed_boundary_landings");
                        self.tr(format!("advance {} (to {:?} deadline of k{k} {:+})", fmt_ns(ns), which, delta));
                    }
                }
            }
            Prim::Sync => {
                if self.is_sync() {
                    touches_sketch = true;
                    explicit_sync = true;
                    self.sub().sync();
                    self.tr("sync()".into());
                    for m in self.keys.values_mut() {
                        if let Some(e) = m.cur.as_mut() {
                            e.acc_lo = e.acc_hi;
                        }
                    }
                }
            }
            Prim::Burst { n, w, gets } => {
                is_m_op = true;
                touches_sketch = true;
                self.run_burst(step, n, w, gets)?;
                if gets {
                    gets_in_op = n as u64;
                }
            }
            Prim::BurstInvalidate { n } => {
                is_m_op = true;
                touches_sketch = true;
                crate::sched_hooks::reset_counters();
                let hi = self.next_burst_key;
                let lo = hi.saturating_sub(n).max(1_000_000);
                let mut present = 0u64;
                for k in lo..hi {
                    self.sub().invalidate(k);
                    if let Some(m) = self.keys.get_mut(&k) {
                        if m.cur.is_some() {
                            present += 1;
                            m.was_invalidated = true;
                        }
                        m.cur = None;
                    }
                }
                let c = crate::sched_hooks::counters();
                self.stats.add("burst_ops", (hi - lo) as u64);
                if c.try_sync_won > 0 && present >= 64 {
                    self.stats.inc("burst_op_performed_maintenance_itself");
                }
                self.pred_ok = false;
                self.burst_total += (hi - lo) as u64;
                self.tr(format!("burst of {} invalidations of burst keys ({present} present); maintenance runs inside the burst: {}", hi - lo, c.try_sync_won));
            }
            Prim::GetFresh { .. } | Prim::ContainsFresh { .. } => unreachable!(),
            Prim::IterAdvance { after, ns } => {
                // one iteration held open across a clock advance: what is yielded after
                // the advance is judged at the new reading
                let (a, b) = self.sub().iter_with_advance(after as usize, ns);
                self.tr(format!("iter() -> first {:?}; advance {}; then {:?}", a.iter().map(|(k, s, _)| format!("k{k}=v{s}")).collect::<Vec<_>>(), fmt_ns(ns), b.iter().map(|(k, s, _)| format!("k{k}=v{s}")).collect::<Vec<_>>()));
                for (k, seq, _) in &a {
                    self.check_shown(step, "iter", *k, *seq)?;
                }
                self.now += ns;
                for (k, seq, _) in &b {
                    self.check_shown(step, "iter (continued after the clock advanced)", *k, *seq)?;
                }
                let mut seen = BTreeSet::new();
                for (k, _, _) in a.iter().chain(b.iter()) {
                    if !seen.insert(*k) && (self.flags.iter_exact || self.flags.stale) {
                        viol!(if self.flags.iter_exact { "C16" } else { "C01" }, step, "iteration yielded key k{k} twice");
                    }
                }
                if !b.is_empty() {
                    self.stats.inc("iterations_continued_after_clock_advance");
                }
                self.results.push((step, format!("iter_adv={:?}", a.iter().chain(b.iter()).map(|x| (x.0, x.1)).collect::<BTreeSet<_>>())));
            }
            Prim::Counters => {
                let ec = self.subr().entry_count();
                let ws = self.subr().weighted_size();
                self.results.push((step, format!("counters={ec},{ws}")));
            }
        }

        self.maint_inside_op = self.is_sync() && !matches!(prim, Prim::Sync) && crate::sched_hooks::counters().try_sync_won > 0;
        let post = self.subr().snapshot();
        self.after_prim(step, &prim, &post, is_m_op, explicit_sync, growth, gets_in_op, touches_sketch, expired_before, matched)?;
        self.pre = post;
        Ok(())
    }

    fn run_burst(&mut self, step: usize, n: u32, w: u32, gets: bool) -> Result<(), Violation> {
        crate::sched_hooks::reset_counters();
        let now = self.now;
        for _ in 0..n {
            let k = self.next_burst_key;
            self.next_burst_key += 1;
            if gets {
                let r = self.sub().get(k);
                if r.is_some() && self.flags.stale {
                    viol!("C01", step, "get of never-inserted burst key k{k} returned a value");
                }
            } else {
                let seq = self.seq_t.len() as u32;
                self.seq_t.push(now);
                self.seq_k.push(k);
                let mw = weight_of(self.cfg, w);
                self.sub().insert(k, seq, w);
                let m = self.keys.entry(k).or_default();
                m.latest_seq = Some(seq);
                m.cur = Some(MEnt { seq, w, mw, t_mod: now, acc_hi: now, acc_lo: now });
            }
        }
        self.burst_total += n as u64;
        let c = crate::sched_hooks::counters();
        self.stats.add("burst_ops", n as u64);
        if c.try_sync_won > 0 {
            self.stats.inc("burst_op_performed_maintenance_itself");
        }
        if c.max_consecutive_retries > 0 {
            self.stats.inc("burst_hit_full_write_queue");
        }
        self.tr(format!("burst of {n} {} (w={w}); maintenance runs inside the burst: {}", if gets { "gets" } else { "inserts" }, c.try_sync_won));
        // the lock-step model cannot follow bursts of inserts (bursts of lookups of
        // absent keys leave the residents alone)
        if !gets {
            self.pred_ok = false;
        }
        Ok(())
    }

    fn check_iter(&mut self, step: usize, items: &[(u32, u32, u32)]) -> Result<(), Violation> {
        let mut seen = BTreeSet::new();
        for (k, seq, _w) in items {
            if !seen.insert(*k) && (self.flags.iter_exact || self.flags.stale) {
                viol!(if self.flags.iter_exact { "C16" } else { "C01" }, step, "iteration yielded key k{k} twice");
            }
            self.check_shown(step, "iter", *k, *seq)?;
        }
        let keys: Vec<u32> = self.keys.keys().copied().collect();
        let mut live = 0;
        for k in &keys {
            if self.cur(*k).is_some() {
                if let Some(m) = self.keys.get_mut(k) {
                    m.pure_since_alive += 1;
                }
            }
            if self.live_lo(*k) {
                live += 1;
                if !seen.contains(k) {
                    self.check_missing(step, "iter", *k)?;
                }
            }
        }
        if self.flags.iter_exact {
            // every physically resident, definitely live entry must be yielded;
            // nothing definitely dead may be yielded
            let snap = self.subr().snapshot();
            let mut filtered = 0;
            for e in &snap.entries {
                let dead = self.dead_hi(e.k) || self.keys.get(&e.k).and_then(|m| m.latest_seq) != Some(e.seq);
                let must = self.live_lo(e.k) && self.keys.get(&e.k).and_then(|m| m.latest_seq) == Some(e.seq);
                if must && !seen.contains(&e.k) {
                    viol!("C16", step, "iteration skipped k{} although the cache holds its live entry v{}", e.k, e.seq);
                }
                if dead {
                    filtered += 1;
                    if seen.contains(&e.k) {
                        viol!("C16", step, "iteration yielded k{} although that entry is expired or invalidated", e.k);
                    }
                }
            }
            for k in &seen {
                if !snap.has(*k) {
                    viol!("C16", step, "iteration yielded k{k}, which the cache does not hold");
                }
            }
            if live >= 2 && filtered >= 1 {
                self.stats.inc("iter_with_2_live_and_1_filtered");
            }
            if seen.len() >= 2 {
                self.stats.inc("iter_with_2_yielded");
            }
        }
        Ok(())
    }

    #[allow(clippy::too_many_arguments)]
    fn after_prim(
        &mut self,
        step: usize,
        prim: &Prim,
        post: &Snap,
        is_m_op: bool,
        explicit_sync: bool,
        growth: Option<u64>,
        gets_in_op: u64,
        touches_sketch: bool,
        expired_before: Vec<u32>,
        matched: Vec<u32>,
    ) -> Result<(), Violation> {
        let sync = self.is_sync();
        if sync {
            self.sync_growth += growth.unwrap_or(0);
        }
        self.window_growth += growth.unwrap_or(0);
        let quiescent_point = if sync { explicit_sync && post.quiescent() } else { true };
        let is_time = matches!(prim, Prim::Advance { .. } | Prim::AdvanceTo { .. } | Prim::IterAdvance { .. } | Prim::Handle { .. });
        if !is_time && !matches!(prim, Prim::Sync) {
            let key_of = match prim {
                Prim::Insert { k, .. } | Prim::Get { k } | Prim::Invalidate { k } | Prim::Contains { k } => Some(*k),
                _ => None,
            };
            let follow_runs = sync && self.flags.predictive() && self.pred_ok;
            let est_after = if follow_runs && self.maint_inside_op {
                let mut m = HashMap::new();
                for k in self.universe() {
                    m.insert(k, self.subr().freq(k));
                }
                Some(m)
            } else {
                None
            };
            self.window.push(WindowOp {
                step,
                prim: prim.clone(),
                now: self.now,
                expired_before,
                matched,
                maint_inside: self.maint_inside_op,
                hit: matches!(prim, Prim::Get { .. }) && self.last_get_hit,
                key_maybe_dead_before: self.key_maybe_dead_op,
                in_map_before: key_of.map_or(false, |k| self.pre.has(k)),
                rq_after: post.read_q,
                wq_after: post.write_q,
                phys_after: if follow_runs { post.keys() } else { Vec::new() },
                est_after,
            });
        }

        if self.flags.term && sync && explicit_sync && !post.quiescent() {
            viol!("C09", step, "after sync() returned, {} read and {} write operations are still queued (maintenance running flag: {})", post.read_q, post.write_q, post.sync_running);
        }
        if quiescent_point {
            // only operations that put something into a queue matter for the order in
            // which maintenance touches the entries
            let queued = self.window.iter().filter(|w| matches!(w.prim, Prim::Insert { .. } | Prim::Get { .. } | Prim::Invalidate { .. } | Prim::Burst { .. } | Prim::BurstInvalidate { .. })).count();
            if queued > 1 {
                self.all_windows_single = false;
            }
        }
        if self.reg.double_drop() && (self.flags.drops || self.flags.walk) {
            viol!(if self.flags.drops { "C11" } else { "C08" }, step, "a key or value object was dropped twice");
        }

        // ---- C08: structural validity after every step ----
        if self.flags.walk {
            if let Err(e) = self.subr().walk(quiescent_point) {
                viol!("C08", step, "structural walk failed: {e}");
            }
            self.stats.inc("walks");
        }

        // ---- C14 cache clause ----
        if self.flags.sketch {
            self.check_sketch_clause(step, prim, post, gets_in_op, touches_sketch)?;
        }

        let cap = self.cfg.cap;
        let phys_w: u64 = post.entries.iter().map(|e| weight_of(self.cfg, e.w_val) as u64).sum();
        self.over_capacity_now = cap.map_or(false, |c| phys_w > c);
        self.over_cap_after.push((step, self.over_capacity_now));
        if self.pure_check && sync && matches!(prim, Prim::Contains { .. } | Prim::Iter | Prim::DebugFmt) {
            let a = &self.pre;
            if a.entries != post.entries || a.probation != post.probation || a.write_order != post.write_order
                || a.read_q != post.read_q || a.write_q != post.write_q
                || a.entry_count != post.entry_count || a.weighted_size != post.weighted_size
            {
                viol!("C15", step, "{prim:?} changed the cache: queues (read,write) {:?} -> {:?}, LRU order {:?} -> {:?}, residents {:?} -> {:?}",
                    (a.read_q, a.write_q), (post.read_q, post.write_q), a.probation, post.probation, a.keys(), post.keys());
            }
            for k in self.universe() {
                let f = self.subr().freq(k);
                if let Some(p0) = self.pure_est.get(&k) {
                    if *p0 != f {
                        viol!("C15", step, "{prim:?} changed the popularity estimate of k{k} from {p0} to {f}");
                    }
                }
            }
        }
        if self.pure_check && sync {
            let mut m = HashMap::new();
            for k in self.universe() {
                m.insert(k, self.subr().freq(k));
            }
            self.pure_est = m;
        }

        // ---- C04 (single-threaded cache: after every op) ----
        if !sync && !is_time {
            if let Some(c) = cap {
                if is_m_op {
                    // few entries: one eviction batch removes any excess, so only the growth
                    // of this very operation may remain. After bursts (more residents than
                    // one batch of 100 evictions) the growths accumulate until the cache
                    // has been seen within its capacity again.
                    self.allowed_excess = if self.burst_total == 0 {
                        growth.unwrap_or(0)
                    } else if phys_w <= c {
                        0
                    } else {
                        self.allowed_excess + growth.unwrap_or(0)
                    };
                }
                if self.flags.cap {
                    if phys_w > c + self.allowed_excess {
                        viol!("C04", step, "resident weight {phys_w} exceeds max_capacity {c} (allowed excess from a growing update: {})", self.allowed_excess);
                    }
                    if let Prim::Insert { k, w } = prim {
                        let mw = weight_of(self.cfg, *w) as u64;
                        if mw > c && !self.pre.has(*k) && post.has(*k) {
                            viol!("C04", step, "a fresh insert of k{k} with weight {mw} > max_capacity {c} was retained");
                        }
                    }
                }
                if phys_w > c {
                    self.stats.inc("steps_over_capacity");
                }
            }
        }

        if quiescent_point {
            self.at_quiescent_point(step, post, phys_w)?;
        }
        Ok(())
    }

    fn check_sketch_clause(
        &mut self,
        step: usize,
        prim: &Prim,
        post: &Snap,
        gets_in_op: u64,
        touches_sketch: bool,
    ) -> Result<(), Violation> {
        self.unaccounted_gets += gets_in_op;
        let resets_now = post.sketch_resets;
        let reset_happened = resets_now != self.resets_prev;
        let prev = self.est_prev.clone();
        self.read_estimates_into_prev();
        for k in self.universe() {
            let a = prev.get(&k).copied().unwrap_or(0);
            let b = self.est_prev[&k];
            if b > 15 {
                viol!("C14", step, "estimate of k{k} is {b} > 15");
            }
            if !touches_sketch && a != b {
                viol!("C14", step, "{prim:?} changed the popularity estimate of k{k} from {a} to {b}; only get may be recorded");
            }
            if b < a && !reset_happened {
                viol!("C14", step, "estimate of k{k} dropped from {a} to {b} without an aging step");
            }
            if reset_happened && b < a / 2 {
                // one aging step floor-halves; several may have happened (rare) - tolerate
                let n = resets_now.wrapping_sub(self.resets_prev);
                if (b as u32) < (a as u32 >> n.min(8)) {
                    viol!("C14", step, "estimate of k{k} fell from {a} to {b} across {n} aging step(s)");
                }
            }
            if b > a && (b - a) as u64 > self.unaccounted_gets {
                viol!("C14", step, "estimate of k{k} rose from {a} to {b} although only {} get call(s) are unaccounted for", self.unaccounted_gets);
            }
            if b > a {
                self.stats.inc("estimate_increments_seen");
            }
        }
        if reset_happened {
            self.stats.inc("aging_steps_seen");
        }
        // ---- lower bound: the estimate is at least the number of recorded lookups ----
        // A get (hit or miss) is recorded once the estimator is switched on; the only
        // lookups the concurrent cache may leave unrecorded are those it drops because its
        // read queue is full. Decided over stretches without an aging step, from one
        // moment with no read queued to the next.
        if reset_happened {
            self.sk_undecidable = true;
        }
        if let Prim::Get { k } = prim {
            *self.sk_gets.entry(*k).or_insert(0) += 1;
            if self.is_sync() && !self.maint_inside_op && post.read_q == self.pre.read_q && self.pre.read_q >= post.read_q_cap {
                // the read queue was full: this lookup was dropped
                self.sk_undecidable = true;
                self.stats.inc("lookups_dropped_by_a_full_read_queue");
            }
        }
        if !self.is_sync() || (post.read_q == 0 && !post.sync_running) {
            if !self.sk_undecidable && self.sk_enabled_at_settle {
                for (k, n) in &self.sk_gets {
                    let (Some(a), Some(b)) = (self.sk_settled.get(k), self.est_prev.get(k)) else { continue };
                    let need = (*a as u32 + *n).min(15) as u8;
                    if *b < need {
                        viol!("C14", step, "k{k} was looked up {n} time(s) since its estimate was {a} (no aging step, no lookup dropped, estimator switched on), but its estimate is {b} < {need}: a lookup was not recorded");
                    }
                    self.stats.inc("recorded_lookup_lower_bounds_checked");
                }
            }
            self.sk_settled = self.est_prev.clone();
            self.sk_gets.clear();
            self.sk_undecidable = false;
            self.sk_enabled_at_settle = post.sketch_enabled;
        }
        self.resets_prev = resets_now;
        // once no read is queued any more, every get has been accounted for
        if !self.is_sync() || post.read_q == 0 {
            self.unaccounted_gets = 0;
        }
        Ok(())
    }

    // ---- quiescent-point monitors ---------------------------------------------

    fn at_quiescent_point(&mut self, step: usize, post: &Snap, phys_w: u64) -> Result<(), Violation> {
        let sync = self.is_sync();
        let window = std::mem::take(&mut self.window);
        let cap = self.cfg.cap;
        for m in self.keys.values_mut() {
            m.pend_reads = 0;
            m.pend_writes = 0;
        }

        // ---- C04, progress: excess left by earlier in-place growths must shrink --------
        // "... which following operations remove": an operation that runs the maintenance
        // and did not itself grow an entry either brings the cache within its capacity or
        // at least removes something
        let grew = std::mem::take(&mut self.window_growth);
        if self.flags.cap && grew == 0 {
            if let Some(c) = cap {
                let prev_w: u64 = self.q_prev.entries.iter().map(|e| weight_of(self.cfg, e.w_val) as u64).sum();
                let ran_maintenance = sync || window.iter().any(|w| matches!(w.prim, Prim::Insert { .. } | Prim::Get { .. } | Prim::Contains { .. } | Prim::Invalidate { .. }));
                if prev_w > c && phys_w > c && ran_maintenance {
                    // (how many entries one run evicts is the implementation's business:
                    // only "nothing at all was removed" is reported)
                    let removed = self.q_prev.entries.iter().filter(|e| !post.has(e.k)).count();
                    if removed == 0 {
                        viol!("C04", step, "the cache was over capacity ({prev_w} > {c}) before {:?}, which runs the maintenance and grows nothing; afterwards it is still over capacity ({phys_w}) and not a single entry was removed", window.last().map(|w| format!("{:?}", w.prim)).unwrap_or_else(|| "sync()".into()));
                    }
                    self.stats.inc("over_capacity_progress_checks");
                }
            }
        }

        // observed removals since the previous quiescent point, classified by the model
        let mut removed_other: Vec<u32> = Vec::new();
        for e in &self.q_prev.entries {
            if !post.has(e.k) {
                let explicitly = self.cur(e.k).is_none();
                if explicitly {
                    continue;
                }
                if self.dead_by_inval(e.k) {
                    continue;
                }
                if self.expired_hi(e.k) {
                    if self.cfg.ttl.is_some() {
                        self.removal_causes.insert("ttl");
                    }
                    if self.cfg.tti.is_some() {
                        self.removal_causes.insert("tti");
                    }
                    self.stats.inc("expired_entries_purged");
                    continue;
                }
                removed_other.push(e.k);
            }
        }
        if !removed_other.is_empty() {
            self.stats.add("entries_evicted_for_capacity", removed_other.len() as u64);
            self.stats.inc("eviction_events");
            if removed_other.len() >= 2 {
                self.stats.inc("eviction_events_with_2_victims");
            }
            self.removal_causes.insert("evicted");
        }
        // ---- C12, "only as many as needed", without the recency model (any cache size) ----
        // The victims are the shortest LRU prefix freeing the required weight, so taking the
        // last victim back must leave less than the required weight freed. With E the evicted
        // weight, w the heaviest victim (at least the last one's weight) and X the weight that
        // left in this step for other reasons (invalidated, expired, an update that shrank an
        // entry; counted as if it had left after the eviction, which is the lenient order):
        // no new key admitted: resident weight after + X + w > max_capacity;
        // new key of weight m admitted: E < (excess before the step) + m + 2w.
        let plain_step = window.len() <= 1
            && window.iter().all(|w| matches!(w.prim, Prim::Insert { .. } | Prim::Get { .. } | Prim::Contains { .. } | Prim::Invalidate { .. } | Prim::InvalidateIf { .. } | Prim::InvalidateAll | Prim::Iter | Prim::Counters | Prim::DebugFmt));
        if self.flags.lru && !removed_other.is_empty() && plain_step {
            if let Some(c) = cap {
                // (an entry updated by this very step weighs what the update gave it)
                let upd: Option<(u32, u64)> = match window.first().map(|w| &w.prim) {
                    Some(Prim::Insert { k, w }) if self.q_prev.has(*k) => Some((*k, weight_of(self.cfg, *w) as u64)),
                    _ => None,
                };
                let wt = |k: u32| match upd {
                    Some((uk, uw)) if uk == k => uw,
                    _ => self.q_prev.get(k).map_or(0, |e| weight_of(self.cfg, e.w_val) as u64),
                };
                let e_w: u64 = removed_other.iter().map(|k| wt(*k)).sum();
                let wmax: u64 = removed_other.iter().map(|k| wt(*k)).max().unwrap_or(0);
                // (entries that left because they had expired: the purge precedes the eviction in
                // every operation, so their weight does not count as having left afterwards -
                // unless more entries than one purge batch may be expired, in which case an
                // expired leftover can itself be among the victims)
                let purge_complete = self.burst_total == 0;
                let mut x: u64 = self
                    .q_prev
                    .entries
                    .iter()
                    .filter(|e| !post.has(e.k) && !removed_other.contains(&e.k))
                    .filter(|e| !purge_complete || self.cur(e.k).is_none() || self.dead_by_inval(e.k))
                    .map(|e| wt(e.k))
                    .sum();
                let prev_w: u64 = self.q_prev.entries.iter().map(|e| wt(e.k)).sum();
                let mut fresh: Option<u64> = None;
                if let Some(Prim::Insert { k, w }) = window.first().map(|w| w.prim.clone()) {
                    let mw = weight_of(self.cfg, w) as u64;
                    match self.q_prev.get(k) {
                        Some(old) => x += (weight_of(self.cfg, old.w_val) as u64).saturating_sub(mw),
                        None if post.has(k) => fresh = Some(mw),
                        None => {}
                    }
                }
                let mut over = match fresh {
                    Some(m) => e_w >= prev_w.saturating_sub(c) + m + 2 * wmax && e_w > 0,
                    None => phys_w + x + wmax <= c,
                };
                // An update of a resident key that arrives while the cache is over capacity
                // (single-threaded cache: the excess is evicted at the start of the operation)
                // may find its own key among the victims, and one whose previous entry has
                // expired finds it purged; the value is then admitted as a new key, with
                // victims of its own. Both the key's old entry and the second set of
                // victims are legitimate: judge the step under that reading as well.
                if let (true, Some((uk, uw))) = (over, upd) {
                    let w_old = self.q_prev.get(uk).map_or(0, |e| weight_of(self.cfg, e.w_val) as u64);
                    let prev_w_old = prev_w - uw + w_old;
                    let maybe_dead = window.first().map_or(false, |w| w.key_maybe_dead_before);
                    if (prev_w_old > c || maybe_dead) && post.has(uk) {
                        let (e2, wmax2) = (e_w + w_old, wmax.max(w_old));
                        if e2 < (prev_w_old - c) + uw + 2 * wmax2 {
                            over = false;
                            self.stats.inc("update_of_a_key_evicted_at_the_start_of_the_same_operation");
                        }
                    }
                }
                if over {
                    let mut ev = removed_other.clone();
                    ev.truncate(12);
                    viol!("C12", step, "{:?}: {} entries weighing {e_w} were removed for capacity (first: {ev:?}, heaviest {wmax}), more than needed: resident weight before {prev_w}, after {phys_w}, max_capacity {c}, weight that left for other reasons {x}{}", window.first().map(|w| w.prim.clone()), removed_other.len(), fresh.map_or(String::new(), |m| format!(", admitted newcomer weighs {m}")));
                }
                self.stats.inc("eviction_amount_checks");
                if removed_other.len() > 100 {
                    self.stats.inc("eviction_amount_checks_with_more_than_100_victims");
                }
            }
        }
        // newcomers that did not make it
        for wop in &window {
            if let Prim::Insert { k, .. } = wop.prim {
                if !self.q_prev.has(k) && !post.has(k) && self.cur(k).is_some() && !self.dead_hi(k) {
                    self.removal_causes.insert("rejected");
                    self.stats.inc("rejected_inserts");
                }
            }
        }

        // ---- C04 on the concurrent cache ----
        if sync && self.flags.cap {
            if let Some(c) = cap {
                // after bursts one maintenance run (500 evictions) need not remove all the
                // excess that in-place growths created: those growths are credited until
                // the cache has been seen within its capacity again
                let credit = if self.burst_total == 0 { 0 } else { self.sync_growth };
                if phys_w > c + credit {
                    viol!("C04", step, "after sync() the resident weight {phys_w} exceeds max_capacity {c} (in-place growths since it was last within capacity: {credit})");
                }
                if phys_w <= c {
                    self.sync_growth = 0;
                }
                if window.len() == 1 {
                    if let Prim::Insert { k, w } = window[0].prim {
                        let mw = weight_of(self.cfg, w) as u64;
                        if mw > c && !self.q_prev.has(k) && post.has(k) {
                            viol!("C04", step, "a fresh insert of k{k} with weight {mw} > max_capacity {c} was retained after sync()");
                        }
                    }
                }
            }
        }
        if sync {
            if let Some(c) = cap {
                if phys_w > c {
                    self.stats.inc("steps_over_capacity");
                }
            }
        }

        // ---- C10 ----
        if self.flags.counters {
            let n = post.entries.len() as u64;
            if post.entry_count != n {
                let mut held = post.keys();
                held.truncate(20);
                viol!("C10", step, "entry_count() = {} but the cache physically holds {} entries {:?}", post.entry_count, n, held);
            }
            if post.weighted_size != phys_w {
                viol!("C10", step, "weighted_size() = {} but the weights of the {} held entries sum to {}", post.weighted_size, n, phys_w);
            }
            for e in &post.entries {
                if e.policy_weight != weight_of(self.cfg, e.w_val) {
                    viol!("C10", step, "entry k{} stores weight {} but the weigher gives {}", e.k, e.policy_weight, weight_of(self.cfg, e.w_val));
                }
            }
            // iteration cross-check
            let mut items = self.sub().iter();
            items.sort();
            let iter_n = items.len() as u64;
            let no_expiry = self.cfg.ttl.is_none() && self.cfg.tti.is_none();
            // entry_count may additionally count only entries that are expired (or
            // hidden by invalidate_all) but not yet purged
            let dead_phys = post.entries.iter().filter(|e| self.dead_hi(e.k)).count() as u64;
            let maybe_phys = post.entries.iter().filter(|e| !self.dead_hi(e.k) && !self.live_lo(e.k)).count() as u64;
            let diff = post.entry_count.saturating_sub(iter_n);
            if post.entry_count < iter_n || diff < dead_phys || diff > dead_phys + maybe_phys {
                viol!("C10", step, "entry_count() = {} and iteration yields {}, but {} held entries are expired/invalidated (+{} undecided)", post.entry_count, iter_n, dead_phys, maybe_phys);
            }
            // without expiry nothing may stay counted once maintenance has run (fewer
            // entries than one purge batch: bursts are exempt)
            if no_expiry && self.burst_total == 0 {
                let iter_w: u64 = items.iter().map(|x| weight_of(self.cfg, x.2) as u64).sum();
                if iter_n != post.entry_count || iter_w != post.weighted_size {
                    let mut held = post.keys();
                    held.truncate(20);
                    viol!("C10", step, "no expiry configured: entry_count/weighted_size = {}/{} but iteration yields {} entries weighing {} (held: {:?})", post.entry_count, post.weighted_size, iter_n, iter_w, held);
                }
            }
            self.stats.inc("counter_checks");
        }

        // ---- C11 ----
        if self.flags.drops {
            let lk = self.reg.live_keys() as u64;
            let lv = self.reg.live_vals() as u64;
            let n = post.entries.len() as u64;
            if lk != n || lv != n {
                viol!("C11", step, "{} entries are resident but {} key objects and {} value objects are alive", n, lk, lv);
            }
            // purge completeness: expired entries are released once maintenance ran
            let small = self.q_prev.entries.len() < 90 && post.entries.len() < 90;
            let exact_order = !sync || self.all_windows_single;
            // entries hidden by invalidate_all are released by the maintenance run that
            // follows it (concurrent cache; exact when every operation was followed by sync)
            if small && sync && exact_order && self.va.is_some() {
                for e in &post.entries {
                    if self.keys.get(&e.k).and_then(|m| m.latest_seq) == Some(e.seq) {
                        if let (Some(cur), Some(va)) = (self.cur(e.k), self.va) {
                            if cur.t_mod < va {
                                viol!("C11", step, "entry k{} was invalidated by invalidate_all (inserted at {}, invalidate_all at {}) but maintenance did not release it", e.k, cur.t_mod, va);
                            }
                        }
                    }
                }
            }
            if small && exact_order && (self.cfg.ttl.is_some() || self.cfg.tti.is_some()) {
                let purge_ran_now = sync
                    || window.last().map_or(false, |w| {
                        matches!(w.prim, Prim::Insert { .. } | Prim::Get { .. } | Prim::Contains { .. } | Prim::Invalidate { .. })
                            && w.now == self.now
                    });
                if purge_ran_now {
                    for e in &post.entries {
                        let newly = matches!(window.last(), Some(WindowOp { prim: Prim::Insert { k, .. }, .. }) if *k == e.k);
                        if self.expired_hi(e.k) && !(newly && !sync) && self.keys.get(&e.k).and_then(|m| m.latest_seq) == Some(e.seq) {
                            viol!("C11", step, "entry k{} expired (deadline passed at reading {}) but maintenance did not release it", e.k, self.now);
                        }
                    }
                }
            }
            self.stats.inc("drop_checks");
        }

        // ---- C03 (iii): an insert that fits succeeds and evicts nothing ----
        if self.flags.fits && !self.cap_never_binds && window.len() == 1 {
            if let (Prim::Insert { k, w }, Some(c)) = (&window[0].prim, cap) {
                let (k, mw) = (*k, weight_of(self.cfg, *w) as u64);
                let prev_w: u64 = self.q_prev.entries.iter().map(|e| weight_of(self.cfg, e.w_val) as u64).sum();
                if !self.q_prev.has(k) && prev_w + mw <= c && window[0].now == self.now {
                    self.stats.inc("fits_inserts_checked");
                    if self.q_prev.entries.iter().any(|e| self.dead_hi(e.k)) || self.stats.get("invalidated_entries") > 0 {
                        self.stats.inc("fits_insert_after_drain");
                    }
                    if !post.has(k) && !self.dead_hi(k) {
                        viol!("C03", step, "insert of new key k{k} (weight {mw}) was not retained although the cache held weight {prev_w} of max_capacity {c}");
                    }
                    for e in &self.q_prev.entries {
                        if !post.has(e.k) && !self.dead_hi(e.k) {
                            viol!("C03", step, "insert of new key k{k} (weight {mw}) fitted in the remaining room ({prev_w}/{c}) but k{} was evicted", e.k);
                        }
                    }
                }
            }
        }

        // ---- C12 / C13 predictive model ----
        if self.flags.predictive() {
            self.check_prediction(step, &window, post)?;
        }
        if self.flags.predictive() || self.flags.sketch {
            self.q_est = self.est_prev.clone();
            if !self.flags.sketch {
                self.read_estimates_into_prev();
                self.q_est = self.est_prev.clone();
            }
        }

        self.q_prev = post.clone();
        Ok(())
    }

    // ---- C12 / C13 ----------------------------------------------------------

    fn evict_excess(rec: &mut Vec<(u32, u32)>, cap: Option<u64>, evicted: &mut Vec<u32>) {
        if let Some(c) = cap {
            let total: u64 = rec.iter().map(|x| x.1 as u64).sum();
            if total > c {
                let need = total - c;
                let mut got = 0u64;
                while got < need && !rec.is_empty() {
                    let (k, w) = rec.remove(0);
                    got += w as u64;
                    evicted.push(k);
                }
            }
        }
    }

    fn check_prediction(&mut self, step: usize, window: &[WindowOp], post: &Snap) -> Result<(), Violation> {
        if !self.pred_ok {
            return Ok(());
        }
        let sync = self.is_sync();
        // The concurrent cache with expiry is followed only where the model is exact: every
        // operation so far was followed by sync() (so the access times are known exactly)
        // and invalidate_all was never used.
        let sync_expiry = sync && (self.cfg.ttl.is_some() || self.cfg.tti.is_some());
        if sync && (self.va.is_some() || (sync_expiry && (!self.all_windows_single || window.len() > 1))) {
            self.pred_ok = false;
            self.stats.inc("prediction_abandoned");
            return Ok(());
        }
        if sync && !sync_expiry {
            return self.check_prediction_runs(step, window, post);
        }
        // Windows of several operations are followed only in the one shape whose
        // meaning does not depend on maintenance internals: the concurrent cache,
        // nothing but inserts, all of them still queued when the explicit sync()
        // began (so maintenance applied them in issue order in one run). A key
        // inserted several times counts once, at its last insert, with its last
        // weight; the excess over max_capacity is evicted once, at the end.
        let mut eff: Vec<WindowOp> = window.to_vec();
        if window.len() > 1 {
            // ... or inserts and gets, all of them still queued: maintenance applies the
            // recorded reads first (in recording order), then the writes (in queueing order).
            // A recorded hit moves its entry to the MRU position if the entry is admitted
            // (whether or not an update of the key is pending); hits on keys inserted in this
            // very window find an entry that is not admitted yet and move nothing.
            let only_ins_get = window.iter().all(|w| matches!(w.prim, Prim::Insert { .. } | Prim::Get { .. }));
            let n_ins = window.iter().filter(|w| matches!(w.prim, Prim::Insert { .. })).count();
            let n_get = window.len() - n_ins;
            if sync && only_ins_get && !sync_expiry && self.pre.write_q == n_ins && self.pre.read_q == n_get {
                eff.clear();
                for w in window.iter().filter(|w| matches!(w.prim, Prim::Get { .. })) {
                    eff.push(w.clone());
                }
                if n_get > 0 {
                    self.stats.inc("batch_windows_with_gets_followed");
                }
                for (i, w) in window.iter().enumerate() {
                    let Prim::Insert { k, .. } = w.prim else { continue };
                    let later = window[i + 1..].iter().any(|w2| matches!(w2.prim, Prim::Insert { k: k2, .. } if k2 == k));
                    if !later {
                        eff.push(w.clone());
                    }
                }
                self.stats.inc("batch_windows_followed");
            } else {
                self.pred_ok = false;
                self.stats.inc("prediction_abandoned");
                return Ok(());
            }
        }
        // Estimates at admission time: those read at the previous quiescent point; but if
        // the window holds gets, maintenance applied them (and nothing else feeds the
        // estimator) before the first write, so the estimates are read now.
        let window_has_gets = window.len() > 1 && window.iter().any(|w| matches!(w.prim, Prim::Get { .. }));
        if sync && window_has_gets {
            let mut m = HashMap::new();
            for k in self.universe() {
                m.insert(k, self.subr().freq(k));
            }
            self.q_est = m;
        }
        let cap = self.cfg.cap;
        let mut rec = self.rec.clone();
        let mut expired: Vec<u32> = Vec::new();
        let mut evicted: Vec<u32> = Vec::new();
        // (key, predicted admit, estimate of candidate, summed estimate of victims, victims)
        let mut decision: Option<(u32, bool, u32, u32, Vec<u32>)> = None;
        let mut decisions: Vec<(u32, bool)> = Vec::new();
        let mut fits_newcomer: Option<u32> = None;
        let mut moved = false;

        for wop in eff.iter() {
            if let Some(d) = &decision {
                decisions.push((d.0, d.1));
            }
            let m_op = matches!(wop.prim, Prim::Insert { .. } | Prim::Get { .. } | Prim::Contains { .. } | Prim::Invalidate { .. } | Prim::Burst { gets: true, .. });
            // the single-threaded cache purges at the start of these operations; the
            // concurrent one if the operation ran a (periodic) maintenance before it queued
            // its own read / write (the key an insert has just written is fresh again)
            if (!sync && m_op) || (sync_expiry && wop.maint_inside) {
                for k in &wop.expired_before {
                    if sync && matches!(wop.prim, Prim::Insert { k: own, .. } if own == *k) {
                        continue;
                    }
                    if let Some(pos) = rec.iter().position(|x| x.0 == *k) {
                        rec.remove(pos);
                        expired.push(*k);
                    }
                }
                Self::evict_excess(&mut rec, cap, &mut evicted);
            }
            match &wop.prim {
                Prim::Insert { k, w } => {
                    let (k, mw) = (*k, weight_of(self.cfg, *w));
                    if let Some(pos) = rec.iter().position(|x| x.0 == k) {
                        if pos + 1 != rec.len() {
                            moved = true;
                        }
                        rec.remove(pos);
                        rec.push((k, mw));
                    } else if eff.len() > 1 && self.q_prev.has(k) {
                        // A resident that was taken as a victim earlier in this same
                        // maintenance run: the eviction removed the key's current map
                        // entry, i.e. the very value this queued update carries, so
                        // the update has nothing left to apply to.
                        self.stats.inc("batch_update_of_evicted_resident_dropped");
                    } else {
                        let total: u64 = rec.iter().map(|x| x.1 as u64).sum();
                        match cap {
                            None => {
                                rec.push((k, mw));
                                fits_newcomer = Some(k);
                            }
                            Some(c) if total + mw as u64 <= c => {
                                rec.push((k, mw));
                                fits_newcomer = Some(k);
                            }
                            Some(c) if mw as u64 > c => {
                                decision = Some((k, false, 0, 0, Vec::new()));
                            }
                            Some(_) => {
                                let mut acc = 0u64;
                                let mut i = 0;
                                while acc < mw as u64 && i < rec.len() {
                                    acc += rec[i].1 as u64;
                                    i += 1;
                                }
                                if acc < mw as u64 {
                                    decision = Some((k, false, 0, 0, Vec::new()));
                                } else {
                                    let c_est = self.q_est.get(&k).copied().unwrap_or(0) as u32;
                                    let victims: Vec<u32> = rec[..i].iter().map(|x| x.0).collect();
                                    let v_est: u32 = victims.iter().map(|v| self.q_est.get(v).copied().unwrap_or(0) as u32).sum();
                                    let admit = c_est > v_est;
                                    if admit {
                                        rec.drain(..i);
                                        rec.push((k, mw));
                                        evicted.extend(victims.iter().copied());
                                    }
                                    decision = Some((k, admit, c_est, v_est, victims));
                                }
                            }
                        }
                    }
                }
                Prim::Get { k } => {
                    // (concurrent cache: a get of an expired, not yet purged entry misses)
                    let hidden = sync_expiry && wop.expired_before.contains(k);
                    if let Some(pos) = rec.iter().position(|x| x.0 == *k).filter(|_| !hidden) {
                        if pos + 1 != rec.len() {
                            moved = true;
                        }
                        let e = rec.remove(pos);
                        rec.push(e);
                    }
                }
                Prim::Invalidate { k } => rec.retain(|x| x.0 != *k),
                Prim::InvalidateAll => rec.clear(),
                Prim::InvalidateIf { .. } => rec.retain(|x| !wop.matched.contains(&x.0)),
                _ => {}
            }
        }
        if let Some(d) = &decision {
            decisions.push((d.0, d.1));
        }
        if sync_expiry {
            // the maintenance run behind the explicit sync(): after the writes, entries whose
            // deadline has passed are purged, then the excess is evicted
            let now_expired: Vec<u32> = rec.iter().map(|x| x.0).filter(|k| self.expired_hi(*k)).collect();
            if rec.iter().any(|x| self.expired_hi(x.0) != self.expired_with_lower_bound(x.0)) {
                // access time not known exactly
                self.pred_ok = false;
                self.stats.inc("prediction_abandoned");
                return Ok(());
            }
            rec.retain(|x| !now_expired.contains(&x.0));
            expired.extend(now_expired);
        }
        if sync && !eff.is_empty() {
            Self::evict_excess(&mut rec, cap, &mut evicted);
        }

        let predicted: BTreeSet<u32> = rec.iter().map(|x| x.0).collect();
        let actual: BTreeSet<u32> = post.entries.iter().map(|e| e.k).collect();
        if predicted != actual {
            let diff: Vec<u32> = predicted.symmetric_difference(&actual).copied().collect();
            // differences that are about expiry or invalidation belong to other properties
            let other = diff.iter().all(|k| expired.contains(k) || self.dead_hi(*k) || self.cur(*k).is_none())
                || fits_newcomer.map_or(false, |k| diff == vec![k]);
            self.pred_ok = false;
            if other {
                self.stats.inc("prediction_abandoned");
                return Ok(());
            }
            let opdesc = window.first().map(|w| format!("{:?}", w.prim)).unwrap_or_default();
            if self.flags.loss && evicted.is_empty() && decision.as_ref().map_or(true, |d| actual.contains(&d.0) == d.1) {
                let missing: Vec<u32> = predicted.difference(&actual).copied().filter(|k| !expired.contains(k) && !self.dead_hi(*k) && self.cur(*k).is_some()).collect();
                if let Some(k) = missing.first() {
                    let e = self.cur(*k).cloned().unwrap();
                    viol!("C03", step,
                        "{opdesc}: k{k} (v{}, inserted at {}, last access {}) is live and nothing had to leave for capacity in this step (resident weight {} of {:?}), yet the cache no longer holds it; residents before {:?}, after {:?}",
                        e.seq, e.t_mod, e.acc_hi, self.rec.iter().map(|x| x.1 as u64).sum::<u64>(), self.cfg.cap, self.rec.iter().map(|x| x.0).collect::<Vec<_>>(), actual);
                }
            }
            let recency: Vec<String> = self.rec.iter().map(|(k, w)| format!("k{k}(w{w},est{})", self.q_est.get(k).copied().unwrap_or(0))).collect();
            let wrong_decision = decisions.iter().find(|d| actual.contains(&d.0) != predicted.contains(&d.0)).map(|d| d.0);
            if eff.len() > 1 {
                let all_ops: Vec<String> = window.iter().map(|w| format!("{:?}", w.prim)).collect();
                if let Some(k) = wrong_decision {
                    if self.flags.admit {
                        viol!("C13", step, "window {all_ops:?} applied by one sync(): newcomer k{k} should be {} (estimates read after the sync; residents before, LRU->MRU: {recency:?}); expected residents {predicted:?}, actual {actual:?}", if predicted.contains(&k) { "resident" } else { "rejected" });
                    }
                } else if self.flags.lru {
                    viol!("C12", step, "window {all_ops:?} applied by one sync(): residents before (LRU->MRU): {recency:?}; expected the cache to remove exactly {evicted:?} for capacity, leaving {predicted:?}, but it holds {actual:?}");
                }
                self.stats.inc("prediction_abandoned");
                return Ok(());
            }
            if let Some((k, admit, c_est, v_est, victims)) = &decision {
                let actual_admit = actual.contains(k);
                if *admit != actual_admit || !*admit {
                    if self.flags.admit {
                        viol!("C13", step,
                            "{opdesc}: newcomer k{k} (estimate {c_est}) against LRU-prefix victims {victims:?} (summed estimate {v_est}): expected {} but it was {}; residents before (LRU->MRU): {recency:?}; expected residents {predicted:?}, actual {actual:?}",
                            if *admit { "admission" } else { "rejection with no resident touched" },
                            if actual_admit { "admitted" } else { "rejected" });
                    }
                    self.stats.inc("prediction_abandoned");
                    return Ok(());
                }
            }
            if self.flags.lru {
                viol!("C12", step,
                    "{opdesc}: residents before (LRU->MRU): {recency:?}; expected the cache to remove exactly {evicted:?} for capacity (shortest LRU prefix), leaving {predicted:?}, but it holds {actual:?}");
            }
            self.stats.inc("prediction_abandoned");
            return Ok(());
        }

        // agreement: collect the evidence classes
        if sync_expiry && !evicted.is_empty() {
            self.stats.inc("predicted_evictions_confirmed_on_concurrent_cache_with_expiry");
            if !expired.is_empty() {
                self.stats.inc("predicted_evictions_confirmed_in_a_run_that_also_purged_expired_entries");
            }
        }
        if !evicted.is_empty() {
            self.stats.inc("predicted_evictions_confirmed");
            if evicted.len() >= 2 {
                self.stats.inc("confirmed_eviction_with_2_victims");
            }
            if self.order_changed_since_eviction {
                self.stats.inc("confirmed_eviction_after_lru_order_change");
            }
            self.order_changed_since_eviction = false;
        }
        if moved {
            self.order_changed_since_eviction = true;
        }
        if let Some((_k, admit, c_est, v_est, victims)) = &decision {
            if *admit {
                self.stats.inc("admitted_with_victims");
            } else {
                self.stats.inc("rejected_newcomers");
                if !victims.is_empty() {
                    self.stats.inc("rejected_by_popularity");
                }
            }
            if !victims.is_empty() && (*c_est as i64 - *v_est as i64).abs() <= 1 {
                self.stats.inc("admission_close_calls");
            }
        }
        self.rec = rec;
        Ok(())
    }

    // ---- C12 / C13 / C03-loss on the concurrent cache: one model step per maintenance run ----
    //
    // The operations issued since the previous quiescent point are applied to the model in
    // the groups in which maintenance applied them: an operation that ran a maintenance run
    // of its own (before queueing its own read / write; observed through the switch-point
    // counter) closes the group of everything queued before it, the explicit sync() closes
    // the last one. Within a run: recorded reads first (in recording order), then the writes
    // (in queueing order), then the excess over max_capacity is evicted. The estimates each
    // run decided with are read right after the operation that contained it (only applied
    // reads feed the estimator). After every run the predicted resident set is compared with
    // the physically held keys. Situations whose outcome the statements do not fix (a victim
    // walk that meets the node of an invalidated key whose removal is still queued, an
    // excess eviction that meets a key whose update is not queued yet) end the prediction
    // for the case instead of being guessed.
    fn check_prediction_runs(&mut self, step: usize, window: &[WindowOp], post: &Snap) -> Result<(), Violation> {
        #[derive(Clone)]
        struct Pend {
            idx: usize,
            /// superseded by a later insert / invalidate of the key (map no longer holds its entry)
            stale: bool,
        }
        enum RunEnd {
            Ok,
            Abandon(&'static str),
        }
        struct Out {
            evicted: Vec<u32>,
            decisions: Vec<(u32, bool, u32, u32, Vec<u32>)>,
            moved: bool,
            /// keys whose current map entry was removed by an eviction of this run
            dead_keys: Vec<u32>,
            /// a decision whose LRU prefix held a key that had been invalidated (removal
            /// still queued): (newcomer, admit under reading 1, under reading 2, estimates)
            gone_decision: Option<(u32, bool, bool, u32, u32, u32)>,
        }
        let cap = self.cfg.cap;
        let cfg = self.cfg;
        let mut rec = self.rec.clone();
        let mut pending: Vec<Pend> = Vec::new();
        let mut all_evicted: Vec<u32> = Vec::new();
        let mut all_decisions: Vec<(u32, bool, u32, u32, Vec<u32>)> = Vec::new();
        let mut moved_any = false;
        let mut runs_desc: Vec<String> = Vec::new();
        let mut auto_runs = 0u64;
        let mut rq_known = true;

        // one maintenance run over `pending`; `trigger` is the operation inside which it ran
        // (its effect on the map precedes the run, its own read / write is queued after it)
        let run = |rec: &mut Vec<(u32, u32)>, pending: &[Pend], trigger: Option<&WindowOp>, est: &HashMap<u32, u8>, out: &mut Out| -> RunEnd {
            // keys that are gone from the map while their node is still in the queue
            let invalidated_later = |from: usize, k: u32| -> bool {
                pending[from..].iter().any(|p| matches!(window[p.idx].prim, Prim::Invalidate { k: k2 } if k2 == k))
                    || matches!(trigger.map(|t| &t.prim), Some(Prim::Invalidate { k: k2 }) if *k2 == k)
            };
            // reads
            for p in pending {
                let w = &window[p.idx];
                if let Prim::Get { k } = w.prim {
                    if w.hit {
                        if let Some(pos) = rec.iter().position(|x| x.0 == k) {
                            if pos + 1 != rec.len() {
                                out.moved = true;
                            }
                            let e = rec.remove(pos);
                            rec.push(e);
                        }
                    }
                }
            }
            // writes
            for (pi, p) in pending.iter().enumerate() {
                let w = &window[p.idx];
                match w.prim {
                    Prim::Insert { k, w: wv } => {
                        if p.stale || out.dead_keys.contains(&k) {
                            continue;
                        }
                        let mw = weight_of(cfg, wv);
                        if let Some(pos) = rec.iter().position(|x| x.0 == k) {
                            if pos + 1 != rec.len() {
                                out.moved = true;
                            }
                            rec.remove(pos);
                            rec.push((k, mw));
                            continue;
                        }
                        let total: u64 = rec.iter().map(|x| x.1 as u64).sum();
                        match cap {
                            None => rec.push((k, mw)),
                            Some(c) if total + mw as u64 <= c => rec.push((k, mw)),
                            Some(c) if mw as u64 > c => out.decisions.push((k, false, 0, 0, Vec::new())),
                            Some(_) => {
                                // The LRU prefix. A key that was invalidated while its removal
                                // is still queued behind this insert has left the map but not
                                // yet the queue and the counters. Two readings of "the shortest
                                // LRU prefix of residents" are possible then: (1) such a key is
                                // no resident any more and is passed over; (2) in the order in
                                // which maintenance applies the operations it still is one.
                                let c_est = est.get(&k).copied().unwrap_or(0) as u32;
                                let (mut acc1, mut acc2) = (0u64, 0u64);
                                let (mut v1, mut v2): (Vec<usize>, Vec<u32>) = (Vec::new(), Vec::new());
                                let (mut f1, mut f2) = (0u32, 0u32);
                                let mut met_gone = false;
                                let mut consecutive_gone = 0;
                                for i in 0..rec.len() {
                                    if acc1 >= mw as u64 && acc2 >= mw as u64 {
                                        break;
                                    }
                                    let (rk, rw) = rec[i];
                                    let rf = est.get(&rk).copied().unwrap_or(0) as u32;
                                    let gone = invalidated_later(pi + 1, rk);
                                    if acc2 < mw as u64 {
                                        acc2 += rw as u64;
                                        f2 += rf;
                                        v2.push(rk);
                                    }
                                    if acc1 < mw as u64 {
                                        if gone {
                                            met_gone = true;
                                            consecutive_gone += 1;
                                            if consecutive_gone > 3 {
                                                // how many such nodes a walk passes over before it
                                                // gives up is the implementation's business
                                                return RunEnd::Abandon("victim_walk_met_many_invalidated_keys");
                                            }
                                        } else {
                                            consecutive_gone = 0;
                                            acc1 += rw as u64;
                                            f1 += rf;
                                            v1.push(i);
                                        }
                                    }
                                }
                                let admit1 = acc1 >= mw as u64 && c_est > f1;
                                let admit2 = acc2 >= mw as u64 && c_est > f2;
                                if met_gone {
                                    if out.gone_decision.is_some() {
                                        return RunEnd::Abandon("victim_walk_met_invalidated_key_twice_in_one_run");
                                    }
                                    out.gone_decision = Some((k, admit1, admit2, c_est, f1, f2));
                                }
                                let victims: Vec<u32> = v1.iter().map(|i| rec[*i].0).collect();
                                if acc1 < mw as u64 {
                                    out.decisions.push((k, false, 0, 0, Vec::new()));
                                } else {
                                    if admit1 {
                                        rec.retain(|x| !victims.contains(&x.0));
                                        rec.push((k, mw));
                                        out.evicted.extend(victims.iter().copied());
                                        // the eviction removes the victim's current map entry: a
                                        // queued (or about to be queued) update of it has nothing
                                        // left to apply to
                                        out.dead_keys.extend(victims.iter().copied());
                                    }
                                    out.decisions.push((k, admit1, c_est, f1, victims));
                                }
                            }
                        }
                    }
                    Prim::Invalidate { k } => {
                        if w.in_map_before {
                            rec.retain(|x| x.0 != k);
                        }
                        // a later insert of the key is a fresh entry again
                        out.dead_keys.retain(|d| *d != k);
                    }
                    _ => {}
                }
            }
            // excess over max_capacity
            if let Some(c) = cap {
                let total: u64 = rec.iter().map(|x| x.1 as u64).sum();
                if total > c {
                    let need = total - c;
                    let mut got = 0u64;
                    while got < need && !rec.is_empty() {
                        let k0 = rec[0].0;
                        let trig_same = matches!(trigger.map(|t| &t.prim), Some(Prim::Insert { k, .. }) | Some(Prim::Invalidate { k }) if *k == k0);
                        if trig_same {
                            return RunEnd::Abandon("excess_eviction_met_key_of_the_running_operation");
                        }
                        let (k, w) = rec.remove(0);
                        got += w as u64;
                        out.evicted.push(k);
                        out.dead_keys.push(k);
                    }
                }
            }
            RunEnd::Ok
        };

        // the map as the model expects it: residents, plus keys whose insert is queued, minus
        // keys whose invalidation is queued
        let expected_map = |rec: &Vec<(u32, u32)>, pending: &[Pend], dead: &[u32]| -> BTreeSet<u32> {
            let mut m: BTreeSet<u32> = rec.iter().map(|x| x.0).collect();
            for p in pending {
                match window[p.idx].prim {
                    Prim::Insert { k, .. } => {
                        if !dead.contains(&k) {
                            m.insert(k);
                        }
                    }
                    Prim::Invalidate { k } => {
                        m.remove(&k);
                    }
                    _ => {}
                }
            }
            m
        };

        let mut final_est: Option<HashMap<u32, u8>> = None;
        for i in 0..=window.len() {
            let wop = window.get(i);
            if let Some(w) = wop {
                match w.prim {
                    Prim::Insert { .. } | Prim::Get { .. } | Prim::Invalidate { .. } | Prim::Contains { .. } | Prim::Iter | Prim::DebugFmt | Prim::Counters => {}
                    Prim::Burst { gets: true, .. } => {
                        // the runs inside a burst of lookups decide with estimates that cannot
                        // be read afterwards: followed only if no insert is waiting
                        if w.maint_inside && pending.iter().any(|p| !p.stale && matches!(window[p.idx].prim, Prim::Insert { .. })) {
                            self.pred_ok = false;
                            self.stats.inc("prediction_abandoned");
                            return Ok(());
                        }
                        rq_known = false;
                    }
                    _ => {
                        self.pred_ok = false;
                        self.stats.inc("prediction_abandoned");
                        return Ok(());
                    }
                }
                // the operation's effect on the map comes first
                if let Prim::Insert { k, .. } | Prim::Invalidate { k } = w.prim {
                    for p in pending.iter_mut() {
                        if matches!(window[p.idx].prim, Prim::Insert { k: k2, .. } if k2 == k) {
                            p.stale = true;
                        }
                    }
                }
            }
            let is_run = wop.map_or(true, |w| w.maint_inside);
            let mut dead_now: Vec<u32> = Vec::new();
            if is_run {
                let est: HashMap<u32, u8> = match wop {
                    Some(w) => w.est_after.clone().unwrap_or_default(),
                    None => {
                        let mut m = HashMap::new();
                        for k in self.universe() {
                            m.insert(k, self.subr().freq(k));
                        }
                        final_est = Some(m.clone());
                        m
                    }
                };
                if wop.map_or(false, |w| w.est_after.is_none()) {
                    self.pred_ok = false;
                    self.stats.inc("prediction_abandoned");
                    return Ok(());
                }
                let mut out = Out { evicted: Vec::new(), decisions: Vec::new(), moved: false, dead_keys: Vec::new(), gone_decision: None };
                let rec_before = rec.clone();
                match run(&mut rec, &pending, wop, &est, &mut out) {
                    RunEnd::Ok => {}
                    RunEnd::Abandon(why) => {
                        self.pred_ok = false;
                        self.stats.inc("prediction_abandoned");
                        self.stats.inc(why);
                        return Ok(());
                    }
                }
                if wop.is_some() {
                    auto_runs += 1;
                }
                let desc = format!(
                    "run {} applied {:?} to residents (LRU->MRU) {:?}",
                    match wop {
                        Some(w) => format!("inside {:?}", w.prim),
                        None => "of the explicit sync()".to_string(),
                    },
                    pending.iter().map(|p| format!("{}{:?}", if p.stale { "superseded " } else { "" }, window[p.idx].prim)).collect::<Vec<_>>(),
                    rec_before.iter().map(|(k, w)| format!("k{k}(w{w},est{})", est.get(k).copied().unwrap_or(0))).collect::<Vec<_>>()
                );
                runs_desc.push(desc);
                moved_any |= out.moved;
                dead_now = out.dead_keys.clone();
                pending.clear();

                // compare with what the cache physically holds after this run
                let (actual, trigger_pend): (BTreeSet<u32>, Vec<Pend>) = match wop {
                    Some(w) => (w.phys_after.iter().copied().collect(), vec![Pend { idx: i, stale: false }]),
                    None => (post.entries.iter().map(|e| e.k).collect(), Vec::new()),
                };
                let predicted = expected_map(&rec, &trigger_pend, &dead_now);
                all_evicted.extend(out.evicted.iter().copied());
                all_decisions.extend(out.decisions.iter().cloned());
                if out.gone_decision.is_some() && predicted == actual {
                    self.stats.inc("admission_decisions_with_invalidated_key_in_lru_prefix_confirmed");
                }
                if predicted != actual {
                    self.pred_ok = false;
                    self.stats.inc("prediction_abandoned");
                    let diff: Vec<u32> = predicted.symmetric_difference(&actual).copied().collect();
                    // burst keys and keys that are dead for other reasons belong to other properties
                    let other = diff.iter().all(|k| *k >= 1_000_000);
                    if other {
                        return Ok(());
                    }
                    let wrong_decision = out.decisions.iter().find(|d| actual.contains(&d.0) != predicted.contains(&d.0)).cloned();
                    let at = wop.map_or(step, |w| w.step);
                    if let Some((k, a1, a2, c_est, f1, f2)) = out.gone_decision {
                        // only what both readings agree on is demanded
                        if a1 == a2 && actual.contains(&k) != a1 && self.flags.admit {
                            viol!("C13", at, "newcomer k{k} (estimate {c_est}) met an invalidated key (removal still queued) in the LRU prefix; passing it over the victims' summed estimate is {f1}, counting it {f2}: either way the newcomer should be {} but it was {}; {}; actual residents {actual:?}",
                                if a1 { "admitted" } else { "rejected" }, if actual.contains(&k) { "admitted" } else { "rejected" }, runs_desc.join("; "));
                        }
                        self.stats.inc("prediction_abandoned_after_invalidated_key_in_lru_prefix");
                        return Ok(());
                    }
                    if self.flags.loss && out.evicted.is_empty() && wrong_decision.is_none() {
                        let missing: Vec<u32> = predicted.difference(&actual).copied().filter(|k| self.cur(*k).is_some() && !self.dead_hi(*k)).collect();
                        if let Some(k) = missing.first() {
                            viol!("C03", at, "k{k} is live and nothing had to leave for capacity in this maintenance run, yet the cache no longer holds it; {}; expected residents {predicted:?}, actual {actual:?}", runs_desc.join("; "));
                        }
                    }
                    if let Some((k, admit, c_est, v_est, victims)) = wrong_decision {
                        if self.flags.admit {
                            viol!("C13", at, "newcomer k{k} (estimate {c_est}) against LRU-prefix victims {victims:?} (summed estimate {v_est}): expected {} but it was {}; {}; expected residents {predicted:?}, actual {actual:?}",
                                if admit { "admission" } else { "rejection with no resident touched" },
                                if actual.contains(&k) { "admitted" } else { "rejected" },
                                runs_desc.join("; "));
                        }
                        return Ok(());
                    }
                    if self.flags.lru {
                        viol!("C12", at, "expected the cache to remove exactly {:?} for capacity (shortest LRU prefix), leaving {predicted:?}, but it holds {actual:?}; {}", out.evicted, runs_desc.join("; "));
                    }
                    return Ok(());
                }
            }
            if let Some(w) = wop {
                // the operation's own read / write is queued now
                let own_dead = matches!(w.prim, Prim::Insert { k, .. } if dead_now.contains(&k));
                pending.push(Pend { idx: i, stale: own_dead });
                if own_dead {
                    self.stats.inc("batch_update_of_evicted_resident_dropped");
                }
                // the queues must hold exactly what the model thinks is pending (a full
                // read queue drops reads, ...): otherwise the grouping is unknown
                let exp_w = pending.iter().filter(|p| match window[p.idx].prim {
                    Prim::Insert { .. } => true,
                    Prim::Invalidate { .. } => window[p.idx].in_map_before,
                    _ => false,
                }).count();
                let exp_r = pending.iter().filter(|p| matches!(window[p.idx].prim, Prim::Get { .. })).count();
                if matches!(w.prim, Prim::Burst { .. }) {
                    continue;
                }
                if w.wq_after != exp_w || (rq_known && w.rq_after != exp_r) {
                    self.pred_ok = false;
                    self.stats.inc("prediction_abandoned");
                    self.stats.inc("prediction_abandoned_queue_lengths_differ");
                    return Ok(());
                }
            }
        }
        let _ = final_est;

        // agreement: collect the evidence classes
        if auto_runs > 0 {
            self.stats.inc("windows_split_by_automatic_maintenance_runs_followed");
            if !all_evicted.is_empty() {
                self.stats.inc("predicted_evictions_confirmed_in_windows_split_by_automatic_runs");
            }
        }
        if window.len() > 1 {
            self.stats.inc("batch_windows_followed");
            if window.iter().any(|w| matches!(w.prim, Prim::Get { .. })) {
                self.stats.inc("batch_windows_with_gets_followed");
            }
            if window.iter().any(|w| matches!(w.prim, Prim::Invalidate { .. })) {
                self.stats.inc("batch_windows_with_invalidations_followed");
            }
        }
        if !all_evicted.is_empty() {
            self.stats.inc("predicted_evictions_confirmed");
            if all_evicted.len() >= 2 {
                self.stats.inc("confirmed_eviction_with_2_victims");
            }
            if self.order_changed_since_eviction {
                self.stats.inc("confirmed_eviction_after_lru_order_change");
            }
            self.order_changed_since_eviction = false;
        }
        if moved_any {
            self.order_changed_since_eviction = true;
        }
        for (_k, admit, c_est, v_est, victims) in &all_decisions {
            if *admit {
                self.stats.inc("admitted_with_victims");
            } else {
                self.stats.inc("rejected_newcomers");
                if !victims.is_empty() {
                    self.stats.inc("rejected_by_popularity");
                }
            }
            if !victims.is_empty() && (*c_est as i64 - *v_est as i64).abs() <= 1 {
                self.stats.inc("admission_close_calls");
            }
        }
        self.rec = rec;
        Ok(())
    }

    // ---- end of case ----------------------------------------------------------

    fn finish(&mut self, case: &Case) -> Result<(), Violation> {
        let last = case.ops.len();
        if self.is_sync() && !case.drop_unsynced {
            self.step(last, Prim::Sync)?;
        }
        // the visible final state (what a full iteration shows)
        let mut items = self.sub().iter();
        items.sort();
        self.results.push((last, format!("final_iter={:?}", items.iter().map(|x| (x.0, x.1)).collect::<Vec<_>>())));
        let snap = self.subr().snapshot();
        if self.is_sync() && !snap.quiescent() {
            self.stats.inc("dropped_with_ops_queued");
        }
        self.final_snap = Some(snap);
        if self.removal_causes.len() >= 3 {
            self.stats.inc("three_removal_causes");
        }
        self.stats.add("removal_causes", self.removal_causes.len() as u64);
        // drop the cache (the only handle)
        let sub = self.sub.take();
        drop(sub);
        if self.flags.drops {
            if self.reg.double_drop() {
                viol!("C11", last, "a key or value object was dropped twice");
            }
            let (lk, lv) = (self.reg.live_keys(), self.reg.live_vals());
            if lk != 0 || lv != 0 {
                viol!("C11", last, "after dropping the last handle {} key objects and {} value objects are still alive", lk, lv);
            }
        }
        Ok(())
    }
}

pub struct CaseOutcome {
    pub violation: Option<Violation>,
    pub stats: Stats,
    pub trace: Vec<String>,
    pub results: Vec<(usize, String)>,
    pub final_keys: Vec<(u32, u32)>,
}

/// Runs one case. Panics raised by the library propagate to the caller.
pub fn run_case(case: &Case, flags: Flags, record_trace: bool, avoid_s6: bool) -> CaseOutcome {
    let mut ex = Exec::new(case, flags, record_trace);
    ex.set_avoid_s6(avoid_s6);
    let r = ex.run(case);
    let final_keys = ex
        .final_snap
        .as_ref()
        .map(|s| s.entries.iter().map(|e| (e.k, e.seq)).collect())
        .unwrap_or_default();
    CaseOutcome {
        violation: r.err(),
        stats: ex.stats.clone(),
        trace: std::mem::take(&mut ex.trace),
        results: std::mem::take(&mut ex.results),
        final_keys,
    }
}
