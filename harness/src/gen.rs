//! Generators: proptest strategies producing `Case` values, one profile per
//! property. Every random choice is made by proptest so that cases shrink and
//! replay; index-like fields are mapped monotonically so shrinking progresses.

use crate::exec::Stats;
use crate::types::*;
use proptest::prelude::*;

#[derive(Clone, Copy, Debug, PartialEq)]
pub enum CapMode {
    /// none, tiny, or large enough — any of them
    Any,
    /// capacity cannot bind: none, or >= the weight bound of the history
    NeverBinds,
    /// small bounded capacities only
    Bounded,
    /// mixture used by C03: half never-binding, half bounded
    Mixed,
}

#[derive(Clone, Copy, Debug, PartialEq)]
pub enum ExpMode {
    Any,
    None,
    Ttl,
    Tti,
}

#[derive(Clone, Debug)]
pub struct OpW {
    pub insert: u32,
    pub get: u32,
    pub contains: u32,
    pub iter: u32,
    pub invalidate: u32,
    pub invalidate_all: u32,
    pub invalidate_if: u32,
    pub advance: u32,
    pub advance_to: u32,
    pub sync: u32,
    pub enter_beyond: u32,
    pub synced_insert: u32,
    pub burst: u32,
    pub warm_insert: u32,
    pub counters: u32,
    pub fresh_lookup: u32,
    pub iter_advance: u32,
    pub insert_batch: u32,
    pub debug_fmt: u32,
    pub handle: u32,
    pub hot_gets: u32,
    pub read_queue_probe: u32,
    pub warm_all: u32,
}

impl Default for OpW {
    fn default() -> Self {
        OpW {
            insert: 30,
            get: 22,
            contains: 7,
            iter: 5,
            invalidate: 8,
            invalidate_all: 3,
            invalidate_if: 4,
            advance: 9,
            advance_to: 5,
            sync: 6,
            enter_beyond: 5,
            synced_insert: 3,
            burst: 0,
            warm_insert: 2,
            counters: 1,
            fresh_lookup: 0,
            iter_advance: 0,
            insert_batch: 0,
            debug_fmt: 1,
            handle: 2,
            hot_gets: 0,
            read_queue_probe: 0,
            warm_all: 0,
        }
    }
}

#[derive(Clone, Debug)]
pub struct Profile {
    pub kinds: Vec<Kind>,
    pub cap: CapMode,
    pub exp: ExpMode,
    pub max_keys: u32,
    pub max_ops: usize,
    pub w: OpW,
    /// concurrent cache: follow every recording op with `sync()`
    pub sync_every_op: bool,
    /// concurrent cache: do so in about half of the cases
    pub sync_every_op_some: bool,
    /// concurrent cache: no expiry and no invalidate_all (C12/C13 domain)
    pub sync_plain: bool,
    pub burst_sizes: Vec<u32>,
    pub drop_unsynced: bool,
    /// occasionally use capacities around 2^32 and weights around u32::MAX
    pub huge: bool,
    /// in such a case, occasionally end with a burst of 140 000 maximal-weight inserts
    pub huge_burst: bool,
    /// bursts are get-bursts only (many distinct keys looked up once: drives the sketch to an aging step)
    pub burst_gets_only: bool,
    /// occasionally use a mid-sized capacity (300..2000) that is first filled with several
    /// hundred unit-weight entries (more than one eviction batch), with weights up to the capacity
    pub mid: bool,
    /// occasionally 24..48 keys with capacities 16..64
    pub big_universe: bool,
}

pub fn profile_for(prop: &str, thorough: bool) -> Profile {
    let both = vec![Kind::Unsync, Kind::Sync];
    let mut p = Profile {
        kinds: both,
        cap: CapMode::Any,
        exp: ExpMode::Any,
        max_keys: if thorough { 24 } else { 8 },
        max_ops: if thorough { 160 } else { 50 },
        w: OpW::default(),
        sync_every_op: false,
        sync_every_op_some: false,
        sync_plain: false,
        burst_sizes: vec![],
        drop_unsynced: false,
        huge: matches!(prop, "C03" | "C04" | "C08" | "C10" | "C12" | "C13"),
        huge_burst: prop == "C08",
        burst_gets_only: matches!(prop, "C12" | "C13"),
        mid: matches!(prop, "C03" | "C04" | "C08" | "C10" | "C12"),
        big_universe: matches!(prop, "C12" | "C13" | "C08"),
    };
    match prop {
        "C01" => {
            p.w.read_queue_probe = 1;
            p.w.iter_advance = 5;
            p.w.burst = 1;
            p.w.fresh_lookup = 3;
            p.burst_sizes = vec![130, 600];
            p.w.enter_beyond = 8;
            p.w.iter = 7;
        }
        "C03" => {
            p.w.burst = 1;
            p.w.fresh_lookup = 2;
            // (half of the concurrent cases are synced after every operation: there the
            // lock-step model also follows caches with ttl/tti, and the loss oracle applies)
            p.sync_every_op_some = true;
            p.cap = CapMode::Mixed;
            p.w.insert_batch = 3;
            p.w.warm_insert = 6;
            p.w.synced_insert = 14;
            p.w.invalidate = 10;
            p.w.enter_beyond = 8;
        }
        "C04" => {
            p.w.burst = 2;
            p.w.fresh_lookup = 2;
            p.cap = CapMode::Bounded;
            p.w.warm_insert = 10;
            p.w.insert = 40;
            p.w.synced_insert = 6;
        }
        "C05" => {
            p.w.read_queue_probe = 2;
            p.w.iter_advance = 6;
            p.w.burst = 2;
            p.w.fresh_lookup = 7;
            p.burst_sizes = vec![130, 600];
            p.exp = ExpMode::Ttl;
            p.w.advance_to = 16;
            p.w.iter = 7;
            p.w.contains = 9;
        }
        "C06" => {
            p.w.read_queue_probe = 2;
            p.w.iter_advance = 6;
            p.w.burst = 2;
            p.w.fresh_lookup = 7;
            p.burst_sizes = vec![130, 600];
            p.exp = ExpMode::Tti;
            p.w.advance_to = 16;
            p.w.iter = 9;
            p.w.contains = 12;
        }
        "C07" => {
            p.w.advance_to = 10;
            p.w.burst = 1;
            p.burst_sizes = vec![130, 600];
            p.w.fresh_lookup = 4;
            p.w.iter_advance = 5;
            p.cap = CapMode::Mixed;
            p.w.invalidate = 14;
            p.w.invalidate_all = 8;
            p.w.invalidate_if = 8;
            p.w.enter_beyond = 8;
        }
        "C08" => {
            p.w.burst = 2;
            p.w.warm_all = 1;
            p.burst_sizes = vec![70, 130, 600];
            p.w.enter_beyond = 8;
            p.max_ops = if thorough { 300 } else { 60 };
        }
        "C09" => {
            p.w.burst = 20;
            p.burst_sizes = if thorough { vec![385, 1000, 5000] } else { vec![70, 385, 1000] };
            p.max_ops = if thorough { 30 } else { 12 };
            p.w.enter_beyond = 14;
            p.kinds = vec![Kind::Sync];
        }
        "C10" => {
            p.w.burst = 1;
            p.w.fresh_lookup = 3;
            p.burst_sizes = vec![70, 200];
            p.w.invalidate = 10;
            p.w.invalidate_if = 6;
            p.w.enter_beyond = 7;
        }
        "C11" => {
            p.w.burst = 1;
            p.w.fresh_lookup = 3;
            p.burst_sizes = vec![70, 130];
            p.w.handle = 8;
            p.sync_every_op_some = true;
            p.drop_unsynced = true;
            p.w.invalidate = 10;
            p.w.enter_beyond = 7;
        }
        "C12" | "C13" => {
            p.w.warm_all = 2;
            p.w.burst = 2;
            p.burst_sizes = vec![700, 1400];
            p.w.hot_gets = 1;
            p.w.insert_batch = 12;
            p.cap = CapMode::Bounded;
            p.sync_every_op = true;
            p.sync_plain = true;
            p.w.get = 34;
            p.w.warm_insert = 12;
            p.w.sync = 4;
            p.w.enter_beyond = 4;
            p.w.synced_insert = 0;
            p.w.invalidate_all = 1;
            p.w.invalidate_if = 2;
            p.w.invalidate = 4;
            p.max_ops = if thorough { 200 } else { 70 };
        }
        "C14" => {
            p.w.handle = 8;
            p.w.burst = 4;
            p.burst_sizes = vec![130, 300, 700, 1400];
            p.w.hot_gets = 2;
            p.w.get = 40;
            p.w.warm_insert = 8;
        }
        "C15" => {
            p.w.burst = 3;
            p.burst_sizes = vec![64, 65, 70];
            p.w.fresh_lookup = 4;
            p.w.enter_beyond = 8;
            p.cap = CapMode::Bounded;
            p.w.get = 30;
            p.w.warm_insert = 8;
            p.w.contains = 0;
            p.w.iter = 0;
        }
        "C16" => {
            p.w.debug_fmt = 8;
            p.w.iter_advance = 6;
            p.w.burst = 1;
            p.burst_sizes = vec![130, 600];
            p.w.iter = 20;
        }
        _ => {}
    }
    p
}

// ---------------------------------------------------------------------------

#[derive(Clone, Debug)]
pub struct RawCfg {
    pub kind_sel: u8,
    pub nkeys: u16,
    pub hasher: u8,
    pub weigher: u8,
    pub weight_by_key: bool,
    pub ttl: u8,
    pub tti: u8,
    pub init_cap: u8,
    pub cap_sel: u8,
    pub cap_small: u8,
    pub cap_slack: u8,
    pub drop_unsynced: bool,
}

#[derive(Clone, Debug)]
pub enum RawOp {
    Insert { k: u16, w: u8 },
    Get { k: u16 },
    Contains { k: u16 },
    Iter,
    Invalidate { k: u16 },
    InvalidateAll,
    InvalidateIf { sel: u8, arg: u64 },
    Advance { sel: u8 },
    AdvanceTo { k: u16, which: bool, delta: u8 },
    Sync,
    EnterBeyond,
    SyncedInsert { k: u16, w: u8 },
    Burst { n: u8, w: u8, gets: bool },
    WarmInsert { k: u16, w: u8, n: u8 },
    Counters,
    FreshLookup { sel: u16, contains: bool },
    IterAdvance { after: u8, sel: u8 },
    /// concurrent cache: leave the periodic-sync window, queue 2-4 inserts, then sync()
    InsertBatch { items: [(u16, u8); 4], n: u8 },
    DebugFmt,
    Handle { sel: u8 },
    /// many gets of one key in a row (enough of them cross an aging step of the sketch)
    HotGets { k: u16, n: u8 },
    /// every key of the universe is looked up n times (many popular residents at once)
    WarmAll { n: u8 },
    /// sync(); about one read-queue flush point of gets of `k2` with no sync in between; step the
    /// clock to the deadline of `k`; get(k)
    ReadQueueProbe { k: u16, k2: u16, n: u8, which: bool },
}

const DURS: [Option<u64>; 9] = [
    None,
    None,
    Some(0),
    Some(1),
    Some(MS),
    Some(600 * MS),
    Some(SEC),
    Some(2 * SEC),
    Some(5 * SEC),
];

fn dur_sel(sel: u8, required: bool) -> Option<u64> {
    let i = idx(sel as u32, 256, DURS.len() as u32) as usize;
    match (DURS[i], required) {
        (None, true) => Some(SEC),
        (d, _) => d,
    }
}

/// monotone map of `raw in 0..range` onto `0..n`
fn idx(raw: u32, range: u32, n: u32) -> u32 {
    if n == 0 {
        0
    } else {
        ((raw as u64 * n as u64) / range as u64) as u32
    }
}

fn raw_cfg() -> impl Strategy<Value = RawCfg> {
    (
        (any::<u8>(), any::<u16>(), any::<u8>(), any::<u8>(), any::<bool>(), any::<u8>()),
        (any::<u8>(), any::<u8>(), any::<u8>(), any::<u8>(), any::<u8>(), any::<bool>()),
    )
        .prop_map(|((kind_sel, nkeys, hasher, weigher, weight_by_key, ttl), (tti, init_cap, cap_sel, cap_small, cap_slack, drop_unsynced))| RawCfg {
            kind_sel,
            nkeys,
            hasher,
            weigher,
            weight_by_key,
            ttl,
            tti,
            init_cap,
            cap_sel,
            cap_small,
            cap_slack,
            drop_unsynced,
        })
}

fn raw_op(w: &OpW) -> BoxedStrategy<RawOp> {
    let mut v: Vec<(u32, BoxedStrategy<RawOp>)> = Vec::new();
    let mut add = |wt: u32, s: BoxedStrategy<RawOp>| {
        if wt > 0 {
            v.push((wt, s));
        }
    };
    add(w.insert, (any::<u16>(), any::<u8>()).prop_map(|(k, w)| RawOp::Insert { k, w }).boxed());
    add(w.get, any::<u16>().prop_map(|k| RawOp::Get { k }).boxed());
    add(w.contains, any::<u16>().prop_map(|k| RawOp::Contains { k }).boxed());
    add(w.iter, Just(RawOp::Iter).boxed());
    add(w.invalidate, any::<u16>().prop_map(|k| RawOp::Invalidate { k }).boxed());
    add(w.invalidate_all, Just(RawOp::InvalidateAll).boxed());
    add(w.invalidate_if, (any::<u8>(), any::<u64>()).prop_map(|(sel, arg)| RawOp::InvalidateIf { sel, arg }).boxed());
    add(w.advance, any::<u8>().prop_map(|sel| RawOp::Advance { sel }).boxed());
    add(w.advance_to, (any::<u16>(), any::<bool>(), any::<u8>()).prop_map(|(k, which, delta)| RawOp::AdvanceTo { k, which, delta }).boxed());
    add(w.sync, Just(RawOp::Sync).boxed());
    add(w.enter_beyond, Just(RawOp::EnterBeyond).boxed());
    add(w.synced_insert, (any::<u16>(), any::<u8>()).prop_map(|(k, w)| RawOp::SyncedInsert { k, w }).boxed());
    add(w.burst, (any::<u8>(), any::<u8>(), any::<bool>()).prop_map(|(n, w, gets)| RawOp::Burst { n, w, gets }).boxed());
    add(w.warm_insert, (any::<u16>(), any::<u8>(), any::<u8>()).prop_map(|(k, w, n)| RawOp::WarmInsert { k, w, n }).boxed());
    add(w.counters, Just(RawOp::Counters).boxed());
    add(w.debug_fmt, Just(RawOp::DebugFmt).boxed());
    add(w.handle, any::<u8>().prop_map(|sel| RawOp::Handle { sel }).boxed());
    add(w.hot_gets, (any::<u16>(), any::<u8>()).prop_map(|(k, n)| RawOp::HotGets { k, n }).boxed());
    add(w.warm_all, any::<u8>().prop_map(|n| RawOp::WarmAll { n }).boxed());
    add(w.read_queue_probe, (any::<u16>(), any::<u16>(), any::<u8>(), any::<bool>()).prop_map(|(k, k2, n, which)| RawOp::ReadQueueProbe { k, k2, n, which }).boxed());
    add(w.insert_batch, (any::<[(u16, u8); 4]>(), any::<u8>()).prop_map(|(items, n)| RawOp::InsertBatch { items, n }).boxed());
    add(w.iter_advance, (any::<u8>(), any::<u8>()).prop_map(|(after, sel)| RawOp::IterAdvance { after, sel }).boxed());
    add(w.fresh_lookup, (any::<u16>(), any::<bool>()).prop_map(|(sel, contains)| RawOp::FreshLookup { sel, contains }).boxed());
    proptest::strategy::Union::new_weighted(v).boxed()
}

fn weight_table(cap: Option<u64>) -> Vec<u32> {
    match cap {
        Some(c) if c <= 64 => {
            let c = c as u32;
            vec![0, 1, 1, 1, 2, 2, 3, c / 2 + 1, c, c + 1, c + 3]
        }
        _ => vec![0, 1, 1, 1, 2, 3, 5, 8],
    }
}

pub fn build_case(p: &Profile, rc: RawCfg, raw_ops: Vec<RawOp>) -> Case {
    let kind = p.kinds[idx(rc.kind_sel as u32, 256, p.kinds.len() as u32) as usize];
    // occasionally a larger universe with a capacity to match (dozens of residents in the
    // victim prefix of a heavy newcomer)
    let big = p.big_universe && rc.nkeys % 8 == 3;
    let nkeys = if big { 24 + idx(rc.nkeys as u32, 65536, 25) } else { 1 + idx(rc.nkeys as u32, 65536, p.max_keys) };
    let hasher = [HasherKind::Sip, HasherKind::Sip, HasherKind::Identity, HasherKind::Collide][idx(rc.hasher as u32, 256, 4) as usize];
    let weigher = if rc.weigher < 110 { WeigherKind::None } else { WeigherKind::Value };
    let plain_sync = p.sync_plain && kind == Kind::Sync;
    let (mut ttl, mut tti) = match p.exp {
        ExpMode::None => (None, None),
        ExpMode::Any => (dur_sel(rc.ttl, false), dur_sel(rc.tti, false)),
        ExpMode::Ttl => (dur_sel(rc.ttl, true), if rc.tti % 3 == 0 { dur_sel(rc.tti, false) } else { None }),
        ExpMode::Tti => (if rc.ttl % 3 == 0 { dur_sel(rc.ttl, false) } else { None }, dur_sel(rc.tti, true)),
    };
    // (a third of these cases keeps its expiry settings: the lock-step model follows the
    // concurrent cache with expiry as long as every operation is followed by sync())
    let sync_with_expiry = plain_sync && p.sync_every_op && rc.cap_slack % 3 == 1;
    if plain_sync && !sync_with_expiry {
        ttl = None;
        tti = None;
    }
    let sync_with_expiry = sync_with_expiry && (ttl.is_some() || tti.is_some());
    let init_cap = [None, None, Some(0), Some(1), Some(1000)][idx(rc.init_cap as u32, 256, 5) as usize];

    // provisional capacity for the weight table (final value may depend on the ops)
    let small_caps: [u64; 12] = [0, 1, 1, 2, 2, 3, 3, 4, 5, 8, 16, 64];
    let small = if big { [16u64, 24, 32, 48, 64][idx(rc.cap_small as u32, 256, 5) as usize] } else { small_caps[idx(rc.cap_small as u32, 256, small_caps.len() as u32) as usize] };
    let cap_mode = match p.cap {
        CapMode::Mixed => {
            if rc.cap_sel < 128 {
                CapMode::NeverBinds
            } else {
                CapMode::Bounded
            }
        }
        m => m,
    };
    // 0: none, 1: small, 2: exactly the weight bound, 3: bound + slack
    let cap_choice = match cap_mode {
        CapMode::Any => idx(rc.cap_sel as u32, 256, 8).min(3).max(if rc.cap_sel < 40 { 0 } else { 1 }),
        CapMode::NeverBinds => [0, 2, 2, 3][idx(rc.cap_sel as u32 % 128, 128, 4) as usize],
        CapMode::Bounded => 1,
        CapMode::Mixed => unreachable!(),
    };
    let cap_for_table = if cap_choice == 1 { Some(small.max(if p.sync_plain { 1 } else { 0 })) } else { None };
    // rare: numeric boundaries of the weight (u32) and capacity (u64) types
    let huge = p.huge && weigher == WeigherKind::Value && rc.cap_slack % 12 == 5 && cap_choice == 1;
    let huge_caps: [u64; 5] = [u32::MAX as u64, 1 << 32, 1 << 50, 1 << 33, 1 << 50];
    let huge_cap = huge_caps[idx(rc.cap_small as u32, 256, 5) as usize];
    let mid = p.mid && !huge && cap_choice == 1 && rc.cap_slack % 12 == 7 && hasher != HasherKind::Collide;
    let mid_cap = [300u64, 600, 1000, 2000][idx(rc.cap_small as u32, 256, 4) as usize];
    let cap_for_table = if mid { Some(mid_cap) } else { cap_for_table };
    let table = if mid {
        let c = mid_cap as u32;
        vec![0, 1, 1, 2, c / 20, c / 10, c / 4, c / 3, c / 2 + 1, c]
    } else if huge { vec![0, 1, 1 << 31, (1 << 31) + 1, u32::MAX - 1, u32::MAX, 1 << 31, u32::MAX] } else { weight_table(cap_for_table) };
    let wmap = |k: u32, w: u8| -> u32 {
        if rc.weight_by_key && !matches!(weigher, WeigherKind::None) {
            table[((k * 7 + 3) as usize) % table.len()]
        } else {
            table[idx(w as u32, 256, table.len() as u32) as usize]
        }
    };
    let kmap = |k: u16| idx(k as u32, 65536, nkeys);

    let adv_choices: Vec<u64> = {
        let mut v = vec![0, 1, MS, 499 * MS, 500 * MS, 501 * MS, SEC];
        for d in [ttl, tti].into_iter().flatten() {
            v.push(d.saturating_sub(1));
            v.push(d);
            v.push(d + 1);
        }
        v
    };

    let mut ops: Vec<Op> = Vec::new();
    // (plain concurrent cases of the C12/C13 domain: half of them run freely, i.e. without a
    // sync() after every operation; the lock-step model follows them one maintenance run at
    // a time)
    let free_running = plain_sync && !sync_with_expiry && rc.hasher % 2 == 0;
    let every = ((p.sync_every_op && !free_running) || (p.sync_every_op_some && rc.cap_slack % 2 == 0)) && kind == Kind::Sync;
    let push = |ops: &mut Vec<Op>, op: Op| {
        let rec = matches!(op, Op::Insert { .. } | Op::Get { .. } | Op::Invalidate { .. });
        ops.push(op);
        if every && rec {
            ops.push(Op::Sync);
        }
    };
    for ro in raw_ops {
        match ro {
            RawOp::Insert { k, w } => {
                let k = kmap(k);
                push(&mut ops, Op::Insert { k, w: wmap(k, w) })
            }
            RawOp::Get { k } => push(&mut ops, Op::Get { k: kmap(k) }),
            RawOp::Contains { k } => push(&mut ops, Op::Contains { k: kmap(k) }),
            RawOp::Iter => push(&mut ops, Op::Iter),
            RawOp::Invalidate { k } => push(&mut ops, Op::Invalidate { k: kmap(k) }),
            RawOp::InvalidateAll => {
                if !plain_sync {
                    push(&mut ops, Op::InvalidateAll)
                }
            }
            RawOp::InvalidateIf { sel, arg } => {
                if kind == Kind::Unsync {
                    let p = match idx(sel as u32, 256, 6) {
                        0 => Pred::Always,
                        1 => Pred::Never,
                        2 | 3 => Pred::KeyMask(arg),
                        4 => Pred::SeqParity(arg & 1 == 1),
                        _ => Pred::WeightIs(table[(arg % table.len() as u64) as usize]),
                    };
                    push(&mut ops, Op::InvalidateIf { p })
                }
            }
            RawOp::Advance { sel } => {
                let ns = adv_choices[idx(sel as u32, 256, adv_choices.len() as u32) as usize];
                push(&mut ops, Op::Advance { ns })
            }
            RawOp::AdvanceTo { k, which, delta } => {
                let which = match (ttl, tti) {
                    (Some(_), None) => Which::Ttl,
                    (None, Some(_)) => Which::Tti,
                    _ => {
                        if which {
                            Which::Ttl
                        } else {
                            Which::Tti
                        }
                    }
                };
                if ttl.is_some() || tti.is_some() {
                    push(&mut ops, Op::AdvanceTo { k: kmap(k), which, delta: idx(delta as u32, 256, 3) as i8 - 1 })
                }
            }
            RawOp::Sync => {
                if kind == Kind::Sync {
                    push(&mut ops, Op::Sync)
                }
            }
            RawOp::EnterBeyond => {
                if kind == Kind::Sync && !every {
                    push(&mut ops, Op::EnterBeyond)
                }
            }
            RawOp::SyncedInsert { k, w } => {
                let k = kmap(k);
                if kind == Kind::Sync {
                    push(&mut ops, Op::SyncedInsert { k, w: wmap(k, w) })
                } else {
                    push(&mut ops, Op::Insert { k, w: wmap(k, w) })
                }
            }
            RawOp::Burst { n, w, gets } => {
                if mid {
                    let c = mid_cap as u32;
                    let n = [60, 150, c / 2][idx(n as u32, 256, 3) as usize];
                    let w = [1, 1, c / 20, c / 10][idx(w as u32, 256, 4) as usize];
                    push(&mut ops, Op::Burst { n, w, gets: gets && w == 1 && p.burst_sizes.is_empty() })
                } else if !p.burst_sizes.is_empty() {
                    let n = p.burst_sizes[idx(n as u32, 256, p.burst_sizes.len() as u32) as usize];
                    let wsel = idx(w as u32, 256, 6);
                    if p.burst_gets_only {
                        push(&mut ops, Op::Burst { n, w: 1, gets: true });
                        if every {
                            ops.push(Op::Sync);
                        }
                    } else if wsel == 5 && kind == Kind::Sync {
                        // a run of invalidations of present keys, no sync in between
                        push(&mut ops, Op::BurstInvalidate { n })
                    } else {
                        let w = [1u32, 1, 0, 2, 1, 1][wsel as usize];
                        push(&mut ops, Op::Burst { n, w, gets })
                    }
                }
            }
            RawOp::WarmInsert { k, w, n } => {
                let k = kmap(k);
                let n = 1 + idx(n as u32, 256, 4);
                for _ in 0..n {
                    push(&mut ops, Op::Get { k });
                }
                push(&mut ops, Op::Insert { k, w: wmap(k, w) })
            }
            RawOp::Counters => push(&mut ops, Op::Counters),
            RawOp::DebugFmt => push(&mut ops, Op::DebugFmt),
            RawOp::Handle { sel } => {
                if kind == Kind::Sync {
                    push(&mut ops, Op::Handle { sel })
                }
            }
            RawOp::HotGets { k, n } => {
                let k = kmap(k);
                let n = [40usize, 300, 1400][idx(n as u32, 256, 3) as usize];
                for _ in 0..n {
                    push(&mut ops, Op::Get { k });
                }
            }
            RawOp::WarmAll { n } => {
                let n = [1usize, 3, 16][idx(n as u32, 256, 3) as usize];
                for k in 0..nkeys {
                    for _ in 0..n {
                        push(&mut ops, Op::Get { k });
                    }
                }
            }
            RawOp::ReadQueueProbe { k, k2, n, which } => {
                ops.push(Op::Sync);
                let n = [63usize, 64, 65, 100][idx(n as u32, 256, 4) as usize];
                for _ in 0..n {
                    ops.push(Op::Get { k: kmap(k2) });
                }
                ops.push(Op::AdvanceTo { k: kmap(k), which: if which { Which::Ttl } else { Which::Tti }, delta: 0 });
                ops.push(Op::Get { k: kmap(k) });
            }
            RawOp::InsertBatch { items, n } => {
                if kind == Kind::Sync && !sync_with_expiry && !(every && (ttl.is_some() || tti.is_some())) {
                    // every third batch writes the same one or two keys repeatedly (a queued
                    // write superseded by another one before maintenance applies either),
                    // after making them popular enough to be admitted
                    if n % 7 == 6 {
                        // a (popular) newcomer queued in front of invalidations of residents:
                        // when maintenance decides the admission, those keys have left the map
                        // but not yet the LRU queue
                        let (a, b, c) = (kmap(items[0].0), kmap(items[1].0), kmap(items[2].0));
                        for _ in 0..(items[1].1 % 4) {
                            push(&mut ops, Op::Get { k: b });
                        }
                        ops.push(Op::EnterBeyond);
                        ops.push(Op::Insert { k: b, w: wmap(b, items[1].1) });
                        ops.push(Op::Invalidate { k: a });
                        if items[2].1 % 2 == 0 {
                            ops.push(Op::Invalidate { k: c });
                        }
                        if items[3].1 % 3 == 0 {
                            let d = kmap(items[3].0);
                            ops.push(Op::Insert { k: d, w: wmap(d, items[3].1) });
                        }
                        ops.push(Op::Sync);
                        continue;
                    }
                    if n % 5 == 4 {
                        // a queued read of a resident, a popular newcomer, and a queued update of
                        // the key that was read, applied by one maintenance run
                        let (a, b) = (kmap(items[0].0), kmap(items[1].0));
                        for _ in 0..3 {
                            push(&mut ops, Op::Get { k: b });
                        }
                        ops.push(Op::EnterBeyond);
                        ops.push(Op::Get { k: a });
                        ops.push(Op::Insert { k: b, w: wmap(b, items[1].1) });
                        ops.push(Op::Insert { k: a, w: wmap(a, items[0].1) });
                        ops.push(Op::Sync);
                        continue;
                    }
                    let repeat = n % 3 == 2;
                    if repeat {
                        for it in items.iter().take(2) {
                            push(&mut ops, Op::Get { k: kmap(it.0) });
                        }
                    }
                    ops.push(Op::EnterBeyond);
                    let n = 2 + idx(n as u32, 256, 3) as usize;
                    for (i, (k, w)) in items.iter().take(n).enumerate() {
                        let k = kmap(if repeat { items[i % 2].0 } else { *k });
                        if !repeat && *w % 4 == 3 {
                            // a queued read among the queued writes
                            ops.push(Op::Get { k });
                            continue;
                        }
                        ops.push(Op::Insert { k, w: wmap(k, *w) });
                    }
                    ops.push(Op::Sync);
                } else {
                    let k = kmap(items[0].0);
                    push(&mut ops, Op::Insert { k, w: wmap(k, items[0].1) })
                }
            }
            RawOp::IterAdvance { after, sel } => {
                if kind == Kind::Sync && sel % 4 == 0 && !plain_sync {
                    push(&mut ops, Op::IterInvalidateAll { after: after % 4 })
                } else {
                    let ns = adv_choices[idx(sel as u32, 256, adv_choices.len() as u32) as usize];
                    push(&mut ops, Op::IterAdvance { after: after % 4, ns })
                }
            }
            RawOp::FreshLookup { sel, contains } => {
                if contains {
                    push(&mut ops, Op::ContainsFresh { sel })
                } else {
                    push(&mut ops, Op::GetFresh { sel })
                }
            }
        }
    }

    let mut case = Case {
        cfg: Cfg { kind, cap: None, weigher, ttl, tti, hasher, init_cap, nkeys },
        ops,
        extra: vec![],
        drop_unsynced: p.drop_unsynced && rc.drop_unsynced && kind == Kind::Sync,
    };
    if mid {
        // fill (part of) the capacity with unit-weight entries after the first few operations
        let c = mid_cap as u32;
        let fill = [c / 2, c * 6 / 10, c, c + 50][(rc.nkeys % 4) as usize];
        let at = case.ops.len().min(4);
        let mut pro = vec![Op::Burst { n: fill, w: 1, gets: false }];
        if kind == Kind::Sync {
            pro.push(Op::Sync);
        }
        case.ops.splice(at..at, pro);
    }
    if huge && p.huge_burst && hasher == HasherKind::Sip {
        case.ops.push(Op::Burst { n: 140_000, w: u32::MAX, gets: false });
        if kind == Kind::Sync {
            case.ops.push(Op::Sync);
        }
    }
    case.cfg.cap = match cap_choice {
        0 => None,
        1 if huge => Some(huge_cap),
        1 => cap_for_table,
        2 => Some(crate::exec::weight_bound(&case)),
        _ => Some(crate::exec::weight_bound(&case) + 1 + rc.cap_slack as u64 % 7),
    };
    case
}

pub fn case_strategy(p: &Profile) -> BoxedStrategy<Case> {
    let p2 = p.clone();
    (raw_cfg(), proptest::collection::vec(raw_op(&p.w), 0..=p.max_ops))
        .prop_map(move |(rc, ops)| build_case(&p2, rc, ops))
        .boxed()
}

// ---------------------------------------------------------------------------

/// The per-property non-trivial rule, evaluated on what actually happened.
pub fn nontrivial(prop: &str, s: &Stats) -> bool {
    let g = |k: &str| s.get(k);
    match prop {
        "C01" => g("lookup_of_updated_key_with_its_ops_pending") > 0 || g("lookup_after_invalidate_and_reinsert") > 0,
        "C03" => g("fits_insert_after_drain") > 0 || g("completeness_confirmed_after_removal") > 0,
        "C04" => g("cap_binds") > 0 && (g("weight_changing_updates") > 0 || g("oversized_inserts") > 0),
        "C05" | "C06" => g("boundary_pair_probed") > 0 || g("zero_duration_probe") > 0 || g("tti_probe_after_only_pure_observations") > 0,
        "C07" => g("lookup_after_invalidate_and_reinsert") > 0 || g("invalidation_with_ops_of_target_pending") > 0,
        "C08" => (g("eviction_events") > 0 || g("expired_entries_purged") > 0) && (g("eviction_events_with_2_victims") > 0 || g("lookups_with_ops_pending") > 0),
        "C09" => g("burst_op_performed_maintenance_itself") > 0,
        "C10" => g("three_removal_causes") > 0 && g("weight_changing_updates") > 0,
        "C11" => g("updates") > 0 && g("invalidated_entries") > 0 && (g("entries_evicted_for_capacity") > 0 || g("expired_entries_purged") > 0),
        "C12" => g("confirmed_eviction_with_2_victims") > 0 || g("confirmed_eviction_after_lru_order_change") > 0,
        "C13" => g("admitted_with_victims") > 0 && g("rejected_by_popularity") > 0,
        "C14" => g("estimate_increments_seen") > 0 && g("inserts") > 0,
        "C16" => g("iter_with_2_live_and_1_filtered") > 0,
        _ => true,
    }
}

pub fn rule_text(prop: &str) -> &'static str {
    match prop {
        "C01" => "proptest histories (config x vec of ops) on both caches; non-trivial = the history contains a lookup of a key that was updated before and whose own operations were still queued at the lookup (concurrent cache), or a lookup of a key after invalidate + re-insert; distinct = distinct case hash",
        "C03" => "histories with capacity none / exactly the weight bound / bounded; non-trivial = an insert that fits was checked after >= 1 entry had left by invalidation or expiry (refill after drain), or a live entry was confirmed present after such removals in a never-binding configuration",
        "C04" => "bounded capacities incl. 0 with weights 0..>capacity; non-trivial = the history's weight bound exceeds max_capacity and it contains >= 1 weight-changing update or oversized insert",
        "C05" | "C06" => "histories with the duration set; clock steps resolved against the model deadline of a chosen key (-1/0/+1 ns); non-trivial = some key was looked up at deadline-1ns and again at deadline or deadline+1ns (both sides of the boundary), or duration 0 probed right after insert, or (tti) probed past the idle deadline after only contains_key/iter touched it",
        "C07" => "histories rich in the three invalidation calls; non-trivial = an invalidated key was re-inserted and looked up, or an invalidation ran while operations of a targeted key were still queued",
        "C08" => "union generator (all ops, all configs, bursts) with the structural walker after every step; non-trivial = >= 1 eviction or expiry purge and (an eviction with >= 2 victims or a lookup executed with operations pending)",
        "C09" => "single-thread bursts of N in {70,385,1000,5000} operations without sync in both housekeeping regimes; non-trivial = at least one operation of a burst performed the pending maintenance itself (observed through the switch-point counter)",
        "C10" => "all configs and ops; non-trivial = >= 3 different removal causes occurred (invalidate, invalidate_all, invalidate_if, ttl, tti, rejected, evicted) and >= 1 weight-changing update",
        "C11" => "drop-tracking keys and values; non-trivial = >= 1 replaced, >= 1 invalidated and >= 1 evicted-or-expired entry",
        "C12" => "predictive LRU model in lock-step; non-trivial = a confirmed capacity eviction with >= 2 victims, or one that followed a hit/update which had changed the LRU order since the previous eviction",
        "C13" => "predictive admission model using the implementation's own estimates; non-trivial = the history contains both an admission with victims and a rejection decided by popularity",
        "C14" => "cache clause: estimates of the whole key universe read after every step; non-trivial = >= 1 estimate increment observed and >= 1 insert executed",
        "C16" => "iteration compared with the model and the physical snapshot after every step; non-trivial = an iteration with >= 2 live entries while >= 1 physically present entry was filtered out",
        _ => "",
    }
}
