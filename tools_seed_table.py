#!/usr/bin/env python3
"""Writes the table of DESIGN.md §10 from seeded/*/meta.json (+ the one-line summaries below)."""
import json,glob,os,re
ONE={
"C01-A":("sync `is_expired_entry_wo`: valid_after test only inside the ttl branch","no ttl; get hit and invalidate_all at one clock reading, then sync"),
"C01-B":("sync `invalidate_all`: fast path `entry_count()==0 && queue empty` returns early","invalidate_all lands between a sync draining the queue and publishing the counters (interleaving)"),
"C02-A":("sync `is_expired_entry_wo`: valid_after ignored unless ttl is set","as C01-A, or get racing invalidate_all between clock read and store"),
"C02-B":("sync `insert`: early return for oversized values forgets the update case","weigher; key present; insert heavier than max_capacity keeps the stale value"),
"C03-A":("unsync `invalidate_entries_if` subtracts the removed *count* from weighted_size","weigher with weights > 1, predicate invalidation, then an insert needing the freed room"),
"C03-B":("sync `remove_expired_wo`: `remove(key)` instead of `remove_if(expired)`","thread in sync() between apply-writes and expiry sweep while another does invalidate(k); insert(k) at k's ttl"),
"C04-A":("unsync `insert` no longer calls `evict_lru_entries`","growing update over capacity followed only by inserts"),
"C04-B":("sync `handle_admit` drops `set_policy_weight`","insert heavy, update lighter before the first op is applied, remove, refill"),
"C05-A":("sync `is_expired_entry_wo`: `return ts < va` skips the ttl test once invalidate_all ran","ttl + an earlier invalidate_all"),
"C05-B":("unsync admitted-with-victims path pushes the write-order node only if tti is set","ttl only, full cache, newcomer admitted over a victim"),
"C06-A":("unsync `get` checks idle expiry with `time_to_live`","tti only and > 100 entries idle-expired at once (beyond one purge batch)"),
"C06-B":("sync `is_expired_entry_ao`: `return ts < va` skips the tti test once invalidate_all ran","tti + an earlier invalidate_all"),
"C07-A":("unsync `invalidate_entries_if` leaves the write-order node","ttl, predicate invalidation, re-insert, lookup between old and new deadline"),
"C07-B":("sync `apply_reads`: revert of the S3 repair","get pending, invalidate_all, re-insert, sync"),
"C08-A":("sync `Inner::sync` reads the counters before taking the maintenance lock","two overlapping maintenance runs (public sync() beside housekeeping)"),
"C08-B":("`Deque::pop_front` no longer clears `prev` of the new head","pop_front on >= 2 nodes, then unlink/move of the new head"),
"C09-A":("sync `get`: expired-entry branch keeps the shard guard while recording the read","get of an expired, unpurged key while housekeeping is due (self-deadlock)"),
"C09-B":("`Housekeeper::should_apply`: `len == flush_point` instead of `>=`","beyond the periodic window, the insert that sees exactly 64 queued writes loses the try_sync race"),
"C10-A":("unsync `evict_expired`: tti branch assigns instead of adding the ttl branch's counts","ttl and tti both set, entry reaching ttl first"),
"C10-B":("sync `handle_upsert`: oversize rejection moved ahead of the update branch","update of an admitted key to a weight > max_capacity"),
"C11-A":("unsync admission victims are not unlinked from the write-order queue","max_capacity + ttl, newcomer admitted over a victim"),
"C11-B":("sync `handle_upsert`: same-weight update returns before moving the nodes","ttl; update of the older of two entries; expiry scan blocked by the fresh front node"),
"C12-A":("unsync `get` (expiry configured) sets last_accessed but does not move to back","ttl/tti + fill + get + evicting admission"),
"C12-B":("sync `evict_lru_entries`: `evicted > excess` instead of `>=`","weigher; evicted weight equals the excess exactly"),
"C13-A":("unsync `admit`: drops `victims.weight >= candidate.weight`","weigher; popular newcomer heavier than all residents together"),
"C13-B":("sync `handle_upsert`: oversize guard `>= max`","newcomer with weight == max_capacity into a full cache"),
"C14-A":("sketch `reset`: masks before shifting","aging step while a counter is >= 8 or has an odd neighbour"),
"C14-B":("unsync `insert` (update path) increments the sketch","sketch enabled, re-insert of a resident key"),
"C15-A":("sync `contains_key` records a `ReadOp::Miss` for an expired/hidden, unpurged entry","ttl/tti or invalidate_all, unpurged entry, full cache"),
"C15-B":("unsync `contains_key` moves the entry to the MRU position","full cache; contains_key on the LRU resident before an evicting admission"),
"C16-A":("sync iterator filter skips the valid_after check when no expiry is configured","no ttl/tti, iterate between invalidate_all and the next maintenance"),
"C16-B":("unsync iterator filter uses the write-time check with the tti duration","tti (alone or with ttl), iterate right after the clock advance"),
"C17-A":("1000-year limit compared in whole seconds","duration strictly between 1000 y and 1000 y + 1 s"),
"C17-B":("sync `build_with_hasher` swaps ttl and tti","custom hasher + an expiry knob"),
}
rows=[]
for d in sorted(glob.glob("/verif/seeded/*/meta.json")):
    m=json.load(open(d)); key=os.path.basename(os.path.dirname(d))
    what,needs=ONE.get(key,("",""))
    det=", ".join(sorted(set(k.replace(":quick","").replace(":thorough"," (thorough)") for k in m.get("detected_by",[])))) or "**not detected**"
    missed=", ".join(sorted(k.replace(":quick","") for k,v in m["checks"].items() if v["exit"]==0))
    c=m.get("confirmed",{})
    ok=all(c.get(k) for k in ("demo_passes_without_change","existing_suite_passes_with_change","builds_with_hooks_on","demo_fails_with_change"))
    rows.append(f"| `{key}` | {what} | {needs} | {'yes' if ok else 'partly'} | {det} | {missed or '–'} |")
table="""Changes written by fresh sub-agents that were given only the text of one
property and a scratch worktree (nothing from `/verif`). Each was confirmed in
its worktree by `tools_seed.py` (patch applies, both cfg builds succeed, the 35
tests still pass, the demonstration fails with the change and passes without
it) and is kept under `seeded/<id>/` (`patch.diff`, `demo.rs`, `meta.json`,
`description.md`). "caught by" lists the quick checks that exit 1 on `/repo`
with the patch applied; "also run, silent" lists checks that were run against
it and stayed silent.

| id | change | needs | confirmed | caught by (quick) | also run, silent |
|----|--------|-------|-----------|-------------------|------------------|
"""+"\n".join(rows)+"""

Checks strengthened because a seeded change was missed at first:
`C06-A` (lookups of burst keys beyond one purge batch were added to the expiry
profiles), `C01-A` (the S6 exclusion was narrowed to C10/C11), `C01-B` and
`C03-B` (litmus programs "insert; advance; sync ‖ invalidate_all; get" and
"sync ‖ invalidate; insert; get at the old value's ttl" plus a completeness
oracle after quiescence were added to SCHED), `C11-B` (half of the C11 cases
on the concurrent cache are now synced after every operation, which is the
domain where purge completeness is exact), `C09-A`/`C09-B` (shorter watchdog
with replay confirmation; spin budget in the scheduler).
`C01-B` and `C02-A` are not violations the named property's own engine can
see (C01 is sequential; C02 does not speak about `invalidate_all`): they are
caught by C07 (and C01) instead.
"""
p="/verif/DESIGN.md"; s=open(p).read()
if "@@SEEDED@@" in s:
    s=s.replace("@@SEEDED@@","<!-- seeded-table-begin -->\n"+table+"<!-- seeded-table-end -->")
else:
    a=s.index("<!-- seeded-table-begin -->"); b=s.index("<!-- seeded-table-end -->")
    s=s[:a]+"<!-- seeded-table-begin -->\n"+table+s[b:]
open(p,"w").write(s)
print(len(rows),"rows")
