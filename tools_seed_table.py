#!/usr/bin/env python3
"""Writes the table of DESIGN.md §10 from seeded/*/meta.json (+ the one-line summaries below)."""
import json,glob,os,re
ONE={
"C01-A":("sync `is_expired_entry_wo`: valid_after test only inside the ttl branch","no ttl; get hit and invalidate_all at one clock reading, then sync"),
"C01-B":("sync `invalidate_all`: fast path `entry_count()==0 && queue empty` returns early","invalidate_all lands between a sync draining the queue and publishing the counters (interleaving)"),
"C02-A":("sync `is_expired_entry_wo`: valid_after ignored unless ttl is set","as C01-A, or get racing invalidate_all between clock read and store"),
"C02-B":("sync `insert`: early return for oversized values forgets the update case","weigher; key present; insert heavier than max_capacity keeps the stale value"),
"C03-A":("unsync `invalidate_entries_if` subtracts the removed *count* from weighted_size","weigher with weights > 1, predicate invalidation, then an insert needing the freed room"),
"C03-B":("sync `remove_expired_wo`: `remove(key)` instead of `remove_if(expired)`","thread in sync() between apply-writes and expiry sweep while another does invalidate(k); insert(k) at k's ttl"),
"C04-A":("unsync `insert` no longer calls `evict_lru_entries`","growing update over capacity followed only by inserts"),
"C04-B":("sync `handle_admit` drops `set_policy_weight`","insert heavy, update lighter before the first op is applied, remove, refill"),
"C05-A":("sync `is_expired_entry_wo`: `return ts < va` skips the ttl test once invalidate_all ran","ttl + an earlier invalidate_all"),
"C05-B":("unsync admitted-with-victims path pushes the write-order node only if tti is set","ttl only, full cache, newcomer admitted over a victim"),
"C06-A":("unsync `get` checks idle expiry with `time_to_live`","tti only and > 100 entries idle-expired at once (beyond one purge batch)"),
"C06-B":("sync `is_expired_entry_ao`: `return ts < va` skips the tti test once invalidate_all ran","tti + an earlier invalidate_all"),
"C07-A":("unsync `invalidate_entries_if` leaves the write-order node","ttl, predicate invalidation, re-insert, lookup between old and new deadline"),
"C07-B":("sync `apply_reads`: revert of the S3 repair","get pending, invalidate_all, re-insert, sync"),
"C08-A":("sync `Inner::sync` reads the counters before taking the maintenance lock","two overlapping maintenance runs (public sync() beside housekeeping)"),
"C08-B":("`Deque::pop_front` no longer clears `prev` of the new head","pop_front on >= 2 nodes, then unlink/move of the new head"),
"C09-A":("sync `get`: expired-entry branch keeps the shard guard while recording the read","get of an expired, unpurged key while housekeeping is due (self-deadlock)"),
"C09-B":("`Housekeeper::should_apply`: `len == flush_point` instead of `>=`","beyond the periodic window, the insert that sees exactly 64 queued writes loses the try_sync race"),
"C10-A":("unsync `evict_expired`: tti branch assigns instead of adding the ttl branch's counts","ttl and tti both set, entry reaching ttl first"),
"C10-B":("sync `handle_upsert`: oversize rejection moved ahead of the update branch","update of an admitted key to a weight > max_capacity"),
"C11-A":("unsync admission victims are not unlinked from the write-order queue","max_capacity + ttl, newcomer admitted over a victim"),
"C11-B":("sync `handle_upsert`: same-weight update returns before moving the nodes","ttl; update of the older of two entries; expiry scan blocked by the fresh front node"),
"C12-A":("unsync `get` (expiry configured) sets last_accessed but does not move to back","ttl/tti + fill + get + evicting admission"),
"C12-B":("sync `evict_lru_entries`: `evicted > excess` instead of `>=`","weigher; evicted weight equals the excess exactly"),
"C13-A":("unsync `admit`: drops `victims.weight >= candidate.weight`","weigher; popular newcomer heavier than all residents together"),
"C13-B":("sync `handle_upsert`: oversize guard `>= max`","newcomer with weight == max_capacity into a full cache"),
"C14-A":("sketch `reset`: masks before shifting","aging step while a counter is >= 8 or has an odd neighbour"),
"C14-B":("unsync `insert` (update path) increments the sketch","sketch enabled, re-insert of a resident key"),
"C15-A":("sync `contains_key` records a `ReadOp::Miss` for an expired/hidden, unpurged entry","ttl/tti or invalidate_all, unpurged entry, full cache"),
"C15-B":("unsync `contains_key` moves the entry to the MRU position","full cache; contains_key on the LRU resident before an evicting admission"),
"C16-A":("sync iterator filter skips the valid_after check when no expiry is configured","no ttl/tti, iterate between invalidate_all and the next maintenance"),
"C16-B":("unsync iterator filter uses the write-time check with the tti duration","tti (alone or with ttl), iterate right after the clock advance"),
"C17-A":("1000-year limit compared in whole seconds","duration strictly between 1000 y and 1000 y + 1 s"),
"C17-B":("sync `build_with_hasher` swaps ttl and tti","custom hasher + an expiry knob"),
"C01-A2":("sync `set_valid_after` stores unconditionally (revert of the R2 repair)","two concurrent invalidate_all with a clock advance between them"),
"C01-B2":("unsync `insert`: oversize rejection moved before the map write","weigher; update of a cached key with weight > max_capacity keeps the stale value"),
"C02-A2":("`AtomicInstant::set_instant_if_later`: compare under a read lock, store under a second write lock","two threads inside invalidate_all, preemption inside that function (no switch point there): real threads only"),
"C02-B2":("sync `get` releases the shard lock before the expiry / valid_after checks","update of the key between lookup and check, after a completed invalidate_all: real threads only"),
"C03-A2":("unsync admission victims keep their write-order node","ttl, bounded, victim evicted by a popular newcomer, victim key re-inserted later, op at the old deadline"),
"C03-B2":("sync `apply_reads`: last_accessed only refreshed for admitted entries","tti; insert(k) and get(k) both still queued when sync() runs"),
"C04-A2":("sync stale-op guard compares the shared EntryInfo instead of the entry","two threads update one admitted key, ops queued in reverse order (R1 shape)"),
"C04-B2":("sync `Inner::sync` snapshots the counters before taking the maintenance lock","public sync() overlapping another maintenance run"),
"C05-A2":("unsync `get`: `wo || ao` became `&&`","ttl only and > 100 entries expired at once, lookup beyond the first batch"),
"C05-B2":("sync iterator reads the clock once at `iter()`","iterator held open across the expiry instant"),
"C06-A2":("sync `get` stamps the hit with a second, later clock reading","the clock must advance between two statements inside one get"),
"C06-B2":("sync iterator reads the clock once at `iter()`","iterator held open across the idle deadline"),
"C07-A2":("sync `remove_expired_ao`: `remove(key)` instead of `remove_if(expired)`","maintenance between apply-writes and expiry sweep while another thread does invalidate(k); insert(k)"),
"C07-B2":("sync `is_expired_entry_wo` rewritten in tuple form: valid_after skipped without ttl","no ttl; get hit and invalidate_all in one tick, then sync"),
"C08-A2":("sync `remove_expired_wo` pops (drops) the front node of a key that left the map","ttl, expired unpurged entry, invalidate(k) with a maintenance run before its Remove op is applied"),
"C08-B2":("two sites: `unlink_ao_from_deque` reads instead of takes the node pointer + `apply_reads` loses its is_admitted guard","queued read hit whose entry was evicted before the read is applied"),
"C09-A2":("sync `invalidate` passes no housekeeper to `schedule_write_op`","~384 invalidations of present keys in a row without any other maintenance trigger"),
"C09-B2":("sync `evict_lru_entries`: loop counter not advanced on the dirty-entry `continue`","weigher, over capacity, another thread updates the LRU key between apply-writes and the eviction loop"),
"C10-A2":("sync `handle_admit` drops `set_policy_weight`","fresh key inserted and re-weighed before the first sync, then updated/removed"),
"C10-B2":("sync `Inner::sync` snapshots the counters before the lock","explicit sync() racing another sync"),
"C11-A2":("sync stale-op guard fails open when the key is absent from the map","several ops queued on a full cache: insert(x popular), invalidate(a), invalidate(b), insert(a)"),
"C11-B2":("sync oversize rejection moved ahead of the update branch","update of an admitted key to weight > max_capacity"),
"C12-A2":("sync `apply_reads`: a read recorded late (older timestamp) no longer moves the entry","reader preempted between clock read and record while another reader of the same key records first"),
"C12-B2":("sync admission sizes the victim set with the entry's stored weight","new key inserted twice with decreasing weight and no sync between"),
"C13-A2":("sync `has_enough_capacity` checks the published weighted_size","two or more writes applied by a single sync()"),
"C13-B2":("sync `admit`: popularity of skipped (invalidated) nodes still added","insert applied between the two halves of invalidate (interleaving)"),
"C14-A2":("sketch `increment` stops at the first saturated counter","partial collision with a key recorded >= 15 times"),
"C14-B2":("unsync `get` does not record a found-but-expired entry","> 100 entries expired at once, lookup beyond the first batch"),
"C15-A2":("sync `contains_key` runs maintenance when >= 64 writes are queued","beyond the periodic window, 64 queued writes, full cache, pending insert of a cold key"),
"C15-B2":("unsync `contains_key` evicts for capacity before it purges expired entries","weigher + ttl, growing update over capacity, expired non-LRU entry, contains_key first"),
"C16-A2":("sync `remove_expired_ao`: `remove(key)` instead of `remove_if(expired)`","housekeeper peeks an expired node, another thread updates that key, housekeeper deletes the fresh entry"),
"C16-B2":("unsync admitted-with-victims path pushes the write-order node only if tti is set","ttl only, full cache, newcomer admitted over a victim"),
"C17-A2":("unsync `CacheBuilder::weigher` copies ttl into tti","expiry knob called before `.weigher()`"),
"C17-B2":("`ensure_expirations_or_panic`: `else if` between the two checks","valid ttl together with a tti over 1000 years"),
"C02-A3":("sync maintenance clears `valid_after` when its own entry count is 0","insert(k) + invalidate_all on one thread while another is inside sync() past the write-queue drain"),
"C02-B3":("sync `insert` update branch skips the write if `last_accessed > ts`","writer preempted between clock read and map update, a reader's hit applied by sync in between"),
"C03-A3":("sync `Inner::sync` reads the counters before taking the maintenance lock","two threads inside sync() at once"),
"C03-B3":("sync update refreshes timestamps only if an expiry policy exists","no ttl/tti; re-insert of a key whose invalidated entry is still physically in the map"),
"C04-A3":("unsync, two cooperating edits: oversize check dropped + weight clause dropped in `admit`","oversized key that was looked up more often than all residents together"),
"C04-B3":("sync `schedule_write_op` gives up after 200 retries","write queue kept full for 10-30 ms by a long maintenance run"),
"C05-A3":("sync `get` checks expiry after releasing the map lock","update of the key between two adjacent statements of a reader's get (real threads)"),
"C05-B3":("unsync `build_with_hasher` swaps ttl and tti","custom hasher, ttl only, a read before the deadline"),
"C07-A3":("sync `Iter` reads `valid_after` once at creation","iterator held across invalidate_all()"),
"C07-B3":("`set_instant_if_later`: check and store in two critical sections","three or more threads in invalidate_all (real threads)"),
"C08-A3":("sync sketch sizing multiplies entry_count * weighted_size in u64","the run that enables the sketch sees >= 65 537 entries of weight near u32::MAX"),
"C08-B3":("sketch `index_of`: `hash += hash >> 32` (checked add)","a hash whose mixed value has all upper 32 bits set"),
"C09-A3":("housekeeping hoisted out of the write retry loop","queue fills while another thread is past the drain of its maintenance run"),
"C09-B3":("`Inner::sync`: `while should_sync || calls <= max_repeats`","sustained load from >= 2 other threads (starvation, not a permanent hang)"),
"C10-A3":("sync currency check uses `try_get().try_unwrap()`","another thread holds the shard's write lock at that instant (real threads)"),
"C10-B3":("sync update branch subtracts the op's `old_weight`","update landing between two statements of `handle_upsert` (real threads, ~2M updates)"),
"C11-A3":("sync currency check uses `try_get().try_unwrap()`","as C10-A3"),
"C11-B3":("sync `invalidate` skips the Remove op for not-yet-admitted entries","invalidate between the guard and `set_admitted(true)` of `handle_upsert` (real threads)"),
"C12-A3":("sync `evict_lru_entries`: `lm >= ts` instead of `==`","another thread updates the LRU key between peek_front and remove_if (no switch point there)"),
"C12-B3":("sync `handle_upsert` clears the dirty flag before the stale-op check","over capacity, LRU key updated twice, maintenance running between the two queued ops (exactly 64 queued writes)"),
"C13-A3":("unsync oversize guard compares against `max as u32`","max_capacity >= 2^32"),
"C13-B3":("sync admission candidate built with the entry's stored weight","new key inserted twice with different weights before maintenance"),
"C16-A3":("sync iterator reads the clock once at creation","iterator held while entries expire"),
"C16-B3":("unsync `Debug` walks the raw map","expired, unpurged entries and `{:?}`"),
"C01-A4":("sync maintenance clears `valid_after` when its counters are 0","insert + clock advance + invalidate_all on another thread while a sync run sits between apply-writes and the end of its expiry step"),
"C01-B4":("sync `Iter` reads `valid_after` and the clock once at creation","iterator held across invalidate_all()"),
"C06-A4":("sync `is_expired_entry_ao`: fast path `now <= ts => not expired`","tti = 0 and a read at the entry's own clock reading"),
"C06-B4":("unsync free-space insert creates the access-order node only if max_capacity or ttl is set","unbounded cache with tti only"),
"C14-A4":("unsync weighted cache keeps re-sizing the sketch","weigher, enabled sketch with recorded lookups, more than 128 entries: a plain insert zeroes every estimate"),
"C14-B4":("sync `apply_reads`: the sketch increment moved inside the 'not backwards' guard","a queued hit older than the entry's last_accessed is applied without being recorded"),
"C15-A4":("unsync `contains_key` enables the popularity sketch","weigher; capacity/2 crossed by a growing update (which never enables the sketch); popularity later decides an admission"),
"C15-B4":("creating a sync iterator re-arms the periodic-sync window","> 500 ms since the last maintenance run, < 64 queued ops, cold key inserted into a full cache and read before the next sync"),
"C17-A4":("sync builder `max_capacity`: `get_or_insert` instead of `insert`","max_capacity applied to a builder that already carries one"),
"C02-A5":("sync `invalidate`: early return when `contains_key` says the key is not visible","tti; a hit of the key still in the read queue; invalidate while the entry looks idle-expired; the queued hit revives it"),
"C02-B5":("`set_instant_if_later` takes the lock with `try_write()` and gives up when it fails","invalidate_all coinciding with a reader's read-lock of valid_after: real threads only"),
"C03-A5":("sync `handle_upsert` subtracts the op's `old_weight` instead of the accounted weight","weigher; a key re-inserted by another thread while maintenance is inside handle_upsert (no switch point): real threads only"),
"C03-B5":("unsync `remove_expired_wo` sums the released weight in a saturating u32","ttl + weigher; one sweep releasing more than u32::MAX of weight"),
"C04-A5":("sync stale-op guard uses `try_get().try_unwrap()`","maintenance examines a write op while another thread holds the shard's write lock: real threads only"),
"C04-B5":("sync `has_enough_capacity` compares with the published `weighted_size()`","several fresh inserts applied by one maintenance run; excess beyond 500 light LRU entries"),
"C05-A5":("sync update path re-stamps the entry only if the stored last_modified is earlier than the inserter's reading","ttl; inserter preempted between its clock read and the map update while the clock advances and another thread updates the key"),
"C05-B5":("unsync `Debug` walks the raw map","ttl; `{:?}` after the deadline and before the next purge"),
"C07-A5":("unsync `invalidate_entries_if` caps the collected keys at 100","more than 100 entries satisfying the predicate"),
"C07-B5":("unsync `invalidate_all` subtracts the entry count from weighted_size instead of resetting it","weigher with weights > 1; nearly full cache; inserts after invalidate_all"),
"C08-A5":("unsync `has_enough_capacity`: `candidate <= limit - ws`","weighted_size above max_capacity when a new key arrives (one growth larger than an eviction batch, or huge weights)"),
"C08-B5":("sync `handle_remove_with_deques` decrements the counters before the is_admitted guard","maintenance paused between applying writes and the expiry step while others invalidate(k), insert(k), invalidate_all()"),
"C09-A5":("sync `record_read_op`: a hit is pushed with blocking `send()` when the read queue is full","384 queued reads while another thread holds the maintenance flag"),
"C09-B5":("sync cache without capacity/ttl/tti is built without a housekeeper","unbounded cache without expiry; 385th insert without sync()"),
"C10-A5":("unsync `invalidate_entries_if` accumulates the invalidated weight in a saturating u32","one call removing more than u32::MAX of weight"),
"C10-B5":("sync `handle_remove_with_deques` drops the is_admitted guard","three threads: sync paused after the write queue drain; invalidate(k)+insert(k); the fresh entry evictable at once"),
"C11-A5":("sync maintenance drains at most 64 reads per round","more than 64 hits queued when a sync starts (another thread inside maintenance), then replace/invalidate + one sync()"),
"C11-B5":("`Deque::drop` forgets its panic guard before dropping the node","a key type whose `Drop` panics"),
"C12-A5":("sync `Inner::sync` computes the excess before purging expired entries","weigher + ttl/tti; growing update while an expired entry is still unpurged"),
"C12-B5":("sync `evict_lru_entries` accumulates the evicted weight in a saturating u32","max_capacity > u32::MAX, weights near u32::MAX, two growing updates in one run"),
"C13-A5":("sync `admit`: `retries >= MAX_CONSECUTIVE_RETRIES`","exactly 5 stale nodes at the LRU front: insert queued, then 5 invalidations, no maintenance in between"),
"C13-B5":("sync `admit` looks victims up with `try_get`","victim's shard write-locked by another thread during admission: real threads only"),
"C16-A5":("sync `BaseCache::is_expired_entry` (iterator) skips the write-time check without ttl","no ttl; get and invalidate_all at one clock reading (or racing), then maintenance, then iterate"),
"C16-B5":("sync `apply_reads` guard compares last_modified instead of last_accessed","tti; two readers whose reads are queued in the opposite order of their clock readings"),
"C01-A6":("sync `invalidate` returns early when `contains_key` is false (as C02-A5)","tti; a queued hit revives an entry that looked idle-expired when it was invalidated"),
"C01-B6":("unsync `invalidate_entries_if` caps the collected keys at 100 (as C07-A5)","more than 100 matching entries"),
"C06-A6":("sync `get_with_hash` skips the tti test while >= 64 reads are queued","exactly one flush point of unapplied reads, then a get of an idle-expired key"),
"C06-B6":("unsync `Debug` walks the raw map (as C05-B5)","tti; `{:?}` after the idle deadline"),
"C14-A6":("sync `contains_key` queues a `ReadOp::Miss` for an expired/hidden unpurged entry","expiry or invalidate_all; contains_key on the unpurged key"),
"C14-B6":("unsync `get` increments the sketch twice on a live hit when expiry is configured","ttl/tti configured; any hit"),
"C15-A6":("sync `Debug` calls `sync()` before listing the entries","`{:?}` while operations are queued"),
"C15-B6":("sync `contains_key` removes an expired entry and queues a Remove op","expired unpurged entry; full cache; a later cold insert"),
"C17-A6":("sync oversize check `new_weight > max as u32`","max_capacity > u32::MAX, full cache, popular candidate heavier than `max as u32`"),
"C17-B6":("unsync `build_with_hasher` validates (ttl, ttl)","custom hasher + time_to_idle over 1000 years"),
"C02-A7":("sync `insert_with_hash` returns early when the write queue is full","384 queued writes (another thread stalled inside maintenance); update of a present key"),
"C02-B7":("sync `invalidate_all`: early return when `entry_count()==0` and the write queue is empty (cousin of C01-B)","invalidate_all between a sync's queue drain and its counter publish"),
"C03-A7":("sync stale-op guard compares the shared EntryInfo (as C04-A2)","two threads update one key, ops queued in the opposite order of the map updates"),
"C03-B7":("sync `apply_reads` guard compares last_modified (as C16-B5)","tti; reads queued in the opposite order of their clock readings"),
"C04-A7":("sync maintenance evicts for capacity only if this run grew the cache","an excess that one run (500 evictions) cannot remove"),
"C04-B7":("unsync `evict_lru_entries` returns early while the sketch is disabled","growing update in a cache that was never half full"),
"C05-A7":("sync iterator filter returns 'not expired' early for dirty entries","ttl; insert not yet applied when its deadline passes; iterate"),
"C05-B7":("unsync `last_modified()` reads the access-order timestamp","ttl; a hit, then iteration (or a lookup beyond one purge batch) between t+ttl and hit+ttl"),
"C07-A7":("sync `invalidate` returns early when `contains_key` is false (as C02-A5)","tti; queued hit revives the entry"),
"C07-B7":("sync `contains_key` returns true at once when no expiry is configured","no ttl/tti; contains_key after invalidate_all before the sweep"),
"C08-A7":("sync `record_read_op`: `Full` and `Disconnected` arms swapped","read queue (384) full: another thread paused inside maintenance"),
"C08-B7":("unsync `build_with_hasher` validates (ttl, ttl) (as C17-B6)","custom hasher + tti near Duration::MAX: first operation panics"),
"C09-A7":("dropping one of exactly two cache handles stops the housekeeper","clone, drop the clone, then > 384 writes without sync()"),
"C09-B7":("sketch enabled lazily inside `handle_upsert` under the read guard (self-deadlock)","one write batch taking a cache with a disabled sketch from below half to over capacity (beyond the periodic window)"),
"C10-A7":("sync stale-op guard compares the shared EntryInfo (as C03-A7)","two threads insert one key with different weights, one preempted between map update and send"),
"C10-B7":("sync `invalidate` queues no Remove op for a not yet admitted entry","invalidate(k) while maintenance is inside handle_upsert for k (no switch point): real threads"),
"C11-A7":("sync update branch requires `old_weight != 0`","weigher returning 0 for a resident; update, then removal"),
"C11-B7":("sync access-order expiry scan became the `else if` of the write-order scan","ttl and tti both set; idle-expired entry"),
"C12-A7":("sync `apply_reads` moves an entry only if it is not dirty","get(k), insert(new), insert(k) queued together; k at the LRU front; popular newcomer"),
"C12-B7":("unsync `admit` skips zero-weight victims","weigher returning 0 for the LRU resident"),
"C13-A7":("unsync `has_enough_capacity`: `weight <= limit - ws` (as C08-A5)","over capacity when a new key arrives"),
"C13-B7":("sync victim popularity summed in a u8, early exit removed","18 or more popular residents in the victim prefix of a heavy newcomer"),
"C16-A7":("`set_instant_if_later`: compare under a read lock, store under a second write lock (as C02-A2)","two racing invalidate_all calls; iteration"),
"C16-B7":("unsync `get` records the hit before the expiry test","tti; > 100 entries idle-expired at once; get of a leftover, then iteration"),
"C01-A8":("`set_instant_if_later` uses `try_write()` (as C02-B5)","invalidate_all beside readers: real threads"),
"C01-B8":("deprecated `get_if_present` served by a new `peek` without the valid_after / expiry filter (as C02-A8)","get_if_present on an invalidated or expired, unpurged entry"),
"C02-A8":("deprecated `get_if_present` reads the map without the valid_after / expiry checks","get_if_present after invalidate_all, before the sweep"),
"C02-B8":("ttl/tti blocks moved ahead of the valid_after block in both expiry predicates","ttl and tti both set; invalidate_all then get"),
"C04-A8":("sync update path subtracts the op's `old_weight` (as C03-A5)","re-insert of a key inside a window of `handle_upsert`: real threads"),
"C04-B8":("unsync `build_with_hasher` passes no weigher","unsync cache built with weigher and custom hasher"),
"C06-A8":("sync iterator filter returns 'not expired' early for dirty entries (as C05-A7)","tti; unapplied write; iterate after the deadline"),
"C06-B8":("unsync admission-with-victims builds the access-order node without a timestamp","tti; full cache; newcomer admitted over a victim; no get/update before its deadline"),
"C08-A8":("sync admission no longer checks that the map entry owns the victim node (revert of the R3 repair)","invalidate(k) preempted before its Remove op is queued, insert(k), full cache, popular heavy newcomer"),
"C08-B8":("unsync admission-with-victims creates the write-order node only if tti is set","ttl only; admitted newcomer; update of it"),
"C10-A8":("sync publishes the counters only 'if changed', comparing the weighted size with the entry count","weighted size after a run equals the previously published entry count"),
"C10-B8":("unsync `handle_update` applies the weight change as an i32 difference","weights above i32::MAX"),
"C14-A8":("sketch saturation test lost its `& 0xF`","a counter at 15 with a non-zero neighbour nibble"),
"C14-B8":("`RESET_MASK` lost a digit","aging step; keys whose counter is the top nibble of a word"),
"C15-A8":("sync iterator filter stamps `last_accessed = now` on entries with a pending write","tti; iterate while an insert is queued and the clock has moved"),
"C15-B8":("unsync `contains_key` shares a prologue with `get` that increments the sketch","full cache; contains_key on an absent key; admission decided by popularity"),
"C17-A8":("unsync `get` checks idle expiry with `time_to_live` (as C06-A)","> 100 idle-expired entries; get of a leftover"),
"C17-B8":("sync sketch threshold `(max_cap + 1) / 2`","max_capacity == u64::MAX"),
"C01-A9":("sync `is_expired_entry_wo` no longer compares last_modified with valid_after (\"the access-time check covers it\")","get hit queued at the reading invalidate_all stores (or racing it), then a sync applies the hit"),
"C01-B9":("unsync `insert`: oversize rejection moved up as an early return (as C01-B2)","weigher; update of a cached key with weight > max_capacity keeps the stale value"),
"C02-A9":("sync `invalidate` returns early when `contains_key` is false (as C02-A5)","tti; a queued hit revives an entry that looked idle-expired when it was invalidated"),
"C02-B9":("sync `do_insert_with_hash` returns None for an oversized value, update case forgotten (as C02-B)","weigher; key present; insert heavier than max_capacity keeps the stale value"),
"C03-A9":("sync `handle_admit` drops `set_policy_weight` (as C04-B)","new key inserted twice with growing weight before maintenance, removed later, then a refill"),
"C03-B9":("sync valid_after checks factored into a helper that compares `ts <= va`","an insert at the very clock reading of an earlier invalidate_all"),
"C04-A9":("unsync, two cooperating edits: oversize check dropped + weight clause dropped in `admit` (as C04-A3)","oversized newcomer looked up more often than all residents together"),
"C04-B9":("sync `handle_admit` adds the entry's stored weight instead of the op's weight","new key inserted twice with growing weight before maintenance"),
"C05-A9":("unsync, two cooperating edits: get/contains_key drop the per-entry ttl test (purge drains all expired nodes) + update no longer moves the write-order node to the back","X inserted before Y, X updated later, lookup of Y between Y's deadline and that of X's update"),
"C05-B9":("sync `get`/`contains_key` skip the expiry test for entries with an unapplied write","ttl; insert or update, no maintenance until the deadline, then a lookup"),
"C06-A9":("sync `get` stamps the queued hit with a second, later clock reading (as C06-A2)","the clock must advance inside one get"),
"C06-B9":("unsync `contains_key` answers from the raw map after the purge passes","tti; more than 100 entries idle-expired at once; contains_key beyond the first batch"),
"C07-A9":("sync `remove_expired_ao`: `remove(key)` instead of `remove_if(expired)` (as C07-A2)","maintenance between node check and map removal while another thread re-inserts the key after invalidate_all"),
"C07-B9":("unsync `Deques::clear` forgets the write-order deque","ttl; insert, invalidate_all, re-insert, operation between the old and the new deadline"),
"C08-A9":("sync, two cooperating edits: `apply_reads` loses its is_admitted guard + `unlink_ao_from_deque` reads instead of takes the node pointer (as C08-B2)","queued hit whose entry is evicted by the maintenance run inside that very get"),
"C08-B9":("unsync `get` removes an expired entry from the map without unlinking its deque nodes","ttl only; > 100 entries expired at once; get beyond the first batch; later an admission walks onto the orphan node (panic)"),
"C09-A9":("two cooperating edits: write queue sized `max_capacity.clamp(64, 384)` + `should_apply` uses `>`","max_capacity <= 64, beyond the periodic window, 65 writes without sync (livelock in a single thread)"),
"C09-B9":("sync `get`: expired-entry arm keeps the shard guard across `record_read_op` (as C09-A)","get of an expired, unpurged key that itself triggers maintenance (self-deadlock)"),
"C10-A9":("sync, two cooperating edits: Upsert carries the weigher's weight of the replaced value + `handle_upsert` subtracts it","admitted key updated twice with different weights, both updates still queued when maintenance runs"),
"C10-B9":("sync `invalidate` queues no Remove op for an entry that is already expired","expired (or hidden) unpurged admitted entry, then invalidate(key) before the next maintenance"),
"C11-A9":("sync `invalidate` queues no Remove op for an entry with an unapplied write","insert, sync, update, invalidate before the update is applied"),
"C11-B9":("sync oversize rejection moved ahead of the update branch (as C10-B)","update of an admitted key to weight > max_capacity"),
"C12-A9":("sync, two cooperating edits: a hit stamps last_accessed at once when tti is set + `apply_reads` moves the node only inside the `la < timestamp` guard","tti + max_capacity; get of a non-MRU key, then a capacity eviction"),
"C12-B9":("sync `admit` passes over victims with an unapplied write","full cache; insert(popular newcomer) and an update of the LRU key queued together"),
"C13-A9":("sync `admit` adds a node's popularity before checking that the map still owns the node","newcomer queued before the invalidation of the LRU key; est(a)+est(b) >= est(newcomer) > est(b)"),
"C13-B9":("unsync `admit`: final condition shortened to `candidate.freq > victims.freq` (as C13-A)","weigher; popular newcomer heavier than all residents together"),
"C14-A9":("unsync, two cooperating edits: `get` records only while the enabled flag is set + `invalidate_all` clears the flag","sketch enabled once, invalidate_all, gets while the cache is below half full"),
"C14-B9":("sync `apply_reads` skips (and does not record) a hit older than the entry's last_accessed (as C14-B4)","get hit queued, same key updated at a later reading before maintenance"),
"C15-A9":("sync `contains_key` invalidates the key when it reports false and expiry is configured","tti; queued hit; contains_key between the stale idle deadline and the sync that applies the hit (or racing an insert)"),
"C15-B9":("unsync `contains_key` removes a found-but-expired entry on the spot, without giving back its weight","> 100 entries expired at once; contains_key beyond the first batch; later a refill to capacity"),
"C16-A9":("sync, two cooperating edits: ttl block ahead of the valid_after block in `is_expired_entry_wo` + the iterator's idle check only when tti is set","ttl only; invalidate_all; iterate before the purge"),
"C16-B9":("sync update re-stamps the shared entry info only if it is not already dirty","ttl/tti; two writes of a key without maintenance in between; iterate between the first and the second write's deadline"),
"C17-A9":("sync `invalidate` queues no Remove op for a not yet admitted entry (as C10-B7)","invalidate racing `handle_upsert` of the same key: real threads"),
"C17-B9":("unsync `initial_capacity` pre-sizes the popularity sketch","initial_capacity in the same power-of-two bracket as max_capacity; get before half full, fill, insert"),
"C01-A10":("unsync `insert`: oversize rejection moved up as an early return (as C01-B2)","weigher; update of a cached key with weight > max_capacity keeps the stale value"),
"C01-B10":("deprecated `get_if_present` served by a new `peek` whose expiry check is guarded by `has_expiry()` only","no ttl/tti; insert, invalidate_all (also through a clone), get_if_present before the sweep"),
"C03-A10":("sync `Inner::sync` computes the excess before purging expired entries (as C12-A5)","weigher + expiry; expired unpurged entry and a growing update in one maintenance run"),
"C03-B10":("sync `build_with_hasher` passes ttl and tti swapped (as C17-B)","custom hasher; tti only; entry read regularly, looked up after insert + tti"),
"C04-A10":("sync `Inner::sync` snapshots the counters before taking the maintenance lock (as C08-A)","explicit sync() overlapping another maintenance run"),
"C04-B10":("sync capacity eviction moved to the end of `apply_writes` (runs only when writes were applied)","an excess needing more than 500 evictions, followed by read-only operations and sync() calls"),
"C05-A10":("sync lookup paths use one merged expiry helper whose tti block returns before the ttl block","ttl and tti both set; entry kept busy by applied reads; lookup at insert + ttl before the sweep"),
"C05-B10":("sync iterator reads the clock once at `iter()` (as C05-B2)","iterator (also `&cache` into_iter / Debug) held open across the deadline"),
"C06-A10":("sync `apply_reads` clamps the timestamps of one batch to be non-decreasing","two readers whose hits are queued in the opposite order of their clock readings, applied by one run"),
"C06-B10":("unsync `get` and `contains_key` drop the per-entry expiry test after the purge","more than 100 entries idle-expired between two calls; lookup beyond the first batch"),
"C08-A10":("sync `Inner::sync` snapshots the counters before taking the maintenance lock (as C08-A)","explicit sync() overlapping another maintenance run"),
"C08-B10":("unsync `has_enough_capacity`: `candidate <= limit - ws` (as C08-A5)","cache still over capacity when a new key arrives (growth larger than one eviction batch can remove)"),
"C09-A10":("sync `get`: merged miss arms keep the shard guard across `record_read_op` (as C09-A)","get of an expired or hidden, unpurged key that itself triggers maintenance (self-deadlock)"),
"C09-B10":("operation queues sized `initial_capacity.clamp(1, 384)`","initial_capacity < 64; idle for more than 500 ms; then more inserts than the queue holds"),
"C10-A10":("sync `Inner::sync` snapshots the counters before taking the maintenance lock (as C08-A)","explicit sync() overlapping another maintenance run"),
"C10-B10":("unsync `insert` over an expired, unpurged entry unlinks it and admits the value as new without giving back count and weight","ttl/tti; more than 100 entries expired at once; rewrite of a key beyond the first purge batch"),
"C11-A10":("sync `handle_upsert` returns early for a candidate hidden by invalidate_all (\"the sweep takes it\")","full cache; insert of a new key still queued; invalidate_all at a later reading; sync"),
"C11-B10":("unsync `handle_update` rejects an oversized replacement without unlinking the old nodes","weigher; resident key re-inserted with weight > max_capacity"),
"C13-A10":("sync `admit` passes over victims with an unapplied write (as C12-B9)","insert(newcomer) directly followed by an update of the popular LRU resident"),
"C13-B10":("deprecated `get_if_present` returns early on `!contains_key`: misses are not recorded","lookups of an absent key through get_if_present, then its insert into a full cache"),
"C14-A10":("sync `record_read_op`: a full read queue discards the oldest queued lookup instead of the new one","384 more gets while another thread is inside a maintenance run"),
"C14-B10":("unsync weighted cache keeps re-sizing the sketch (as C14-A4)","weigher; max_capacity > 128; sketch enabled; hundreds more inserts"),
"C15-A10":("sync `contains_key` records a `ReadOp::Miss` for an expired/hidden unpurged entry (as C15-A)","expiry or invalidate_all; contains_key on the unpurged key; later re-insert into a full cache"),
"C15-B10":("sync `Debug` calls `sync()` before listing the entries (as C15-A6)","`{:?}` while a write is queued"),
"C16-A10":("sync `remove_expired_ao`: `remove(key)` instead of `remove_if(expired)` (as C07-A2)","maintenance between node check and map removal while a writer re-inserts the key"),
"C16-B10":("sync `evict_expired` unsets `valid_after` after its sweep","more than 500 admitted entries when invalidate_all is called, then one maintenance run"),
"C17-A10":("sync `Inner::new` drops time_to_idle when tti >= ttl","both knobs set with tti >= ttl; policy().time_to_idle()"),
"C17-B10":("unsync: `initial_capacity` (no weigher) switches the popularity sketch on at build time","gets before the cache is half full, fill, then an insert decided by popularity"),
"C02-A10":("sync `do_insert_with_hash`: the update writes its value to the map twice (plain insert, then a second insert sharing the old entry info)","overlapping inserts of one present key by two threads: another thread's complete insert between the two writes (A-B-A); real threads only"),
"C02-B10":("sync admission puts a victim with an unapplied write back into the map after removing it","full cache under admission pressure, trained sketch, an update of the LRU resident still queued, a write of that key in the gap; real threads, long history"),
"C07-A10":("sync update refreshes last_accessed only when tti is configured","no tti; key present, invalidate_all, re-insert of the key before the sweep"),
"C07-B10":("sync iterator snapshots ttl, tti and valid_after at creation","iterator (`&cache` into_iter) held across invalidate_all()"),
"C12-A10":("sync `admit` passes over victims with an unapplied write (as C12-B9)","writer descheduled between its map update and queueing its op while another thread's popular insert is admitted"),
"C12-B10":("sync `Inner::sync` calls `evict_lru_entries` once more with the amount computed for the first batch","weigher; more than 500 residents; one growth needing more than 500 evictions"),
"C01-A11":("`set_instant_if_later`: check under a read lock, store under a separate write lock (as C02-A2)","two overlapping invalidate_all calls; real threads"),
"C01-B11":("sync `evict_expired` unsets `valid_after` when its sweeps report nothing left, forgetting the exhausted batch (as C16-B10)","more than 500 admitted entries older than valid_after at the first maintenance run after invalidate_all"),
"C02-A11":("sync `invalidate` returns early when `contains_key` is false (as C02-A5)","tti; a queued hit revives an entry that looked idle-expired when it was invalidated"),
"C02-B11":("sync `insert` drops a value heavier than max_capacity before touching the map (as C02-B)","weigher; key present; oversized update keeps the stale value"),
"C03-A11":("sync `handle_upsert`: the admitted-entry update path moved above the stale-op guard","two threads update one admitted key, ops queued in the opposite order of the map updates (R1 shape)"),
"C03-B11":("unsync admission unlinks the victim's access-order node only (write-order node forgotten; as C03-A2)","ttl + max_capacity; victim evicted by a popular newcomer, its key inserted again, clock past the old deadline"),
"C04-A11":("sync `handle_admit` adds the entry's stored weight instead of the op's weight (as C04-B9)","new key inserted twice with growing weight before maintenance"),
"C04-B11":("unsync `build_with_hasher` passes no weigher (as C04-B8)","weigher + custom hasher"),
"C05-A11":("sync `get` checks expiry after releasing the map lock (as C05-A3)","update of the expired key between two statements of a reader's get; real threads"),
"C05-B11":("unsync `get` drops the per-entry ttl test after the purge","more than 100 entries expired at once; get beyond the first batch"),
"C06-A11":("sync lookup paths use one merged expiry helper that returns the ttl verdict before looking at tti","ttl and tti both set, tti < ttl; idle entry looked up before the sweep"),
"C06-B11":("sync iterator reads the clock once at `iter()` (as C06-B2)","iterator held open across the idle deadline"),
"C07-A11":("sync update stores its clock reading only if later than the stamp already there","insert reads the clock, another thread's invalidate_all and insert of the key complete, then the first insert's map update lands"),
"C07-B11":("unsync `invalidate_entries_if` caps the collected keys at one batch (as C07-A5)","more than 100 entries satisfying the predicate"),
"C08-A11":("sync `handle_upsert` unlinks and drops the nodes admission skipped instead of moving them back","insert(X) then invalidate(LRU key) queued together, then another admitted insert (use after free)"),
"C08-B11":("sync `build_with_hasher` no longer validates the durations","custom hasher + ttl/tti that overflows the clock (internal panics instead of the documented one)"),
"C10-A11":("sync `handle_admit` drops `set_policy_weight` (as C10-A2)","key written twice with different weights before the first write is applied, then removed or rewritten"),
"C10-B11":("dropping a cache handle drains both operation queues","a clone dropped while operations are queued"),
"C11-A11":("sync `invalidate` queues no Remove op for a not yet admitted entry (as C10-B7)","invalidate racing `handle_upsert` of the same key; real threads"),
"C11-B11":("sync hidden-entry sweep runs once per invalidate_all (flag consumed even when the batch was exhausted)","no ttl/tti; more than 500 admitted entries at invalidate_all"),
"C12-A11":("sync `Inner::sync` computes the excess before purging expired entries (as C12-A5)","weigher + expiry; growing update and an expiring entry in one maintenance run"),
"C12-B11":("deprecated `get_if_present` served by a lookup that records no hit","get_if_present of a resident, then a capacity eviction (and, with tti, its idle deadline)"),
"C13-A11":("sync `handle_upsert`: oversize guard `>= max` (as C13-B)","newcomer with weight == max_capacity into a full cache"),
"C13-B11":("unsync `get` (expiry configured) no longer moves the entry to the MRU end (as C12-A)","ttl/tti; fill, get, evicting admission"),
"C14-A11":("sync `get` queues no hit when the entry's last access has the same clock reading","a get in the clock tick of the key's insert, update or previous applied get"),
"C14-B11":("sync `apply_reads` skips (and does not record) a hit older than the entry's last_accessed (as C14-B4)","insert, get, update, then maintenance"),
"C15-A11":("sync `contains_key` invalidates the key when it reports false (as C15-A9)","tti; queued hit; contains_key between the stale and the real idle deadline"),
"C15-B11":("unsync `contains_key` evicts for capacity before it purges expired entries (as C15-B2)","weigher + ttl; growing update over capacity; expired non-LRU entry; contains_key first"),
"C16-A11":("unsync iterator compares `deadline < now`","iteration at exactly insert + ttl (or access + tti) before any other operation"),
"C16-B11":("sync iterator filter returns 'not expired' for admitted entries with an unapplied write","insert, sync, update, invalidate_all (or the deadline), iterate before maintenance"),
"C17-A11":("1000-year limit for time_to_idle compared in whole seconds","time_to_idle between 1000 y + 1 ns and 1000 y + 999 999 999 ns"),
"C17-B11":("unsync `Cache::new` switches the popularity sketch on at once","new(n); get before the cache is half full; fill; insert decided by popularity"),
"C02-A12":("sync rejection path: `remove(key)` then put the newer entry back if it was not the op's entry","one thread in `handle_upsert` (rejection) while another inserts the key twice: once before the remove, once between remove and put-back"),
"C02-B12":("sync `remove_expired_wo`: `remove(key)` and re-insert if the entry turns out not to be expired","ttl; expired unswept key; its writer inserts twice around the sweep's remove"),
"C04-A12":("sync `handle_upsert` update arm applies the weight change only if the op's old and new weights differ","another thread's insert of the key between the currency check and `set_policy_weight` of a maintenance run"),
"C04-B12":("sync stale-op guard uses `try_get().try_unwrap()` (as C04-A5)","sustained insert traffic on one map shard beside maintenance"),
"C07-A12":("sync `remove_expired_ao`: `remove(key)` instead of `remove_if(expired)` (as C07-A2)","the sweep between node check and map removal while another thread re-inserts the key after invalidate_all"),
"C07-B12":("sync update raises its timestamp to the entry's later last_modified (as C07-A11)","an insert that read the clock before invalidate_all lands after a competing insert of the key"),
"C09-A12":("sync `evict_lru_entries`: skipped (dirty) nodes no longer count against the batch (as C09-B2)","over capacity, the only remaining LRU node made dirty by another thread between apply-writes and the eviction loop"),
"C10-A12":("sync `invalidate` queues no Remove op for a not yet admitted entry (as C10-B7)","invalidate between the currency check and `set_admitted(true)` of `handle_upsert`"),
"C10-B12":("sync `handle_upsert`: the admitted-entry update path moved above the stale-op guard (as C03-A11)","two writers update one admitted key, ops queued in the opposite order of the map updates"),
"C11-A12":("sync `invalidate` queues no Remove op for a not yet admitted entry (as C10-B7)","as C10-A12"),
"C11-B12":("sync `schedule_write_op` gives up on a Remove op when the write queue is full","384 pending writes (one thread stuck in maintenance) at the moment an admitted entry is invalidated"),
"C16-A12":("sync `remove_expired_wo`: `remove(key)` instead of `remove_if(expired)` (as C03-B)","ttl; the sweep between node check and map removal while another thread updates the key"),
"C16-B12":("sync `remove_expired_ao` removes the map entry if it is not dirty instead of re-checking expiry","write ops of one key applied out of order (re-insert applied while the old entry's Remove op is still on its way) with tti or invalidate_all"),
"C17-B4":("unsync `with_everything` drops zero durations","time_to_live / time_to_idle of exactly 0"),
}
rows=[]
for d in sorted(glob.glob("/verif/seeded/*/meta.json")):
    m=json.load(open(d)); key=os.path.basename(os.path.dirname(d))
    what,needs=ONE.get(key,("",""))
    det=", ".join(sorted(set(k.replace(":quick","").replace(":thorough"," (thorough)") for k in m.get("detected_by",[])))) or "**not detected**"
    missed=", ".join(sorted(k.replace(":quick","") for k,v in m["checks"].items() if v["exit"]==0))
    c=m.get("confirmed",{})
    ok=all(c.get(k) for k in ("demo_passes_without_change","existing_suite_passes_with_change","builds_with_hooks_on","demo_fails_with_change"))
    rows.append(f"| `{key}` | {what} | {needs} | {'yes' if ok else 'partly'} | {det} | {missed or '–'} |")
table="""Changes written by fresh sub-agents that were given only the text of one
property and a scratch worktree (nothing from `/verif`). Each was confirmed in
its worktree by `tools_seed.py` (patch applies, both cfg builds succeed, the 35
tests still pass, the demonstration fails with the change and passes without
it) and is kept under `seeded/<id>/` (`patch.diff`, `demo.rs`, `meta.json`,
`description.md`). "caught by" lists the quick checks that exit 1 on `/repo`
with the patch applied; "also run, silent" lists checks that were run against
it and stayed silent.

| id | change | needs | confirmed | caught by (quick) | also run, silent |
|----|--------|-------|-----------|-------------------|------------------|
"""+"\n".join(rows)+"""

Checks strengthened because a seeded change was missed at first:
`C06-A` (lookups of burst keys beyond one purge batch were added to the expiry
profiles), `C01-A` (the S6 exclusion was narrowed to C10/C11), `C01-B` and
`C03-B` (litmus programs "insert; advance; sync ‖ invalidate_all; get" and
"sync ‖ invalidate; insert; get at the old value's ttl" plus a completeness
oracle after quiescence were added to SCHED), `C11-B` (half of the C11 cases
on the concurrent cache are now synced after every operation, which is the
domain where purge completeness is exact), `C09-A`/`C09-B` (shorter watchdog
with replay confirmation; spin budget in the scheduler).
`C01-B` and `C02-A` are not violations the named property's own engine can
see (C01 is sequential; C02 does not speak about `invalidate_all`): they are
caught by C07 (and C01) instead.

Second round (ids ending in `2`; the sub-agents were told which ideas had been
used and asked for changes needing queued operations, interleavings, batch
boundaries, collisions, numeric boundaries or cooperating sites). Strengthened
after misses: `C02-A2`, `C02-B2` (new STRESS workload for C07: invalidators,
writers and readers on the real clock), `C03-A2` (C03 "loss" oracle: the
lock-step model of C12/C13 also runs under C03 and reports a live entry that
disappears in a step where nothing had to leave for capacity), `C05-B2`,
`C06-B2` (`IterAdvance`: an iteration held open across a clock advance),
`C07-A2`/`C16-A2` (litmus programs with a stale access-order node; the
completeness oracle after quiescence also runs under C07), `C09-A2` (bursts of
invalidations of present keys), `C12-B2`, `C13-A2` (the lock-step model follows
insert-only windows applied by one `sync()`), `C15-A2` (C15 histories with a
full write queue). `seeded/C08-*2`'s author also reported a use-after-free on
the *unchanged* tree; it was reproduced by a new SCHED litmus program and
repaired (R3, §2).

Third round (ids ending in `3`; the sub-agents were asked for changes that only
very specific circumstances expose: three or more threads, preemptions between
two particular statements, more than a batch of entries, numeric boundaries,
held iterators, `Debug`, ...). Strengthened after misses: `C16-B3` (`DebugFmt`
operation: the `Debug` output is checked as an iteration), `C16-A3` (C16 also
reports expired values an iteration shows), `C07-A3` (`IterInvalidateAll`: an
iterator held across `invalidate_all()`), `C04-A3` (more popular oversized
newcomers in the C04 profile), `C04-B3` (scheduler "patience": a thread may
retry a full queue 250 times before anybody else is scheduled), `C08-B3`
(boundary pre-image hashes for the sketch's index mixing), `C08-A3`, `C13-A3`
("huge" configurations: capacities around 2^32, weights around u32::MAX, and a
final burst of 140 000 maximal-weight inserts), `C05-A3` (STRESS: ttl
generations on the mock clock, 60 000 chances for the race), `C10-A3`,
`C11-A3`, `C11-B3` (STRESS "mixed" workload with state oracles after
quiescence, incl. a variant where all keys share one shard of the map).
The author of `seeded/C08-*3` reported three more observations on the unchanged
tree; none is inside the quantifier of C08 and all are recorded in §7
(a key whose `Hash` changes while it is cached, `initial_capacity` near
`usize::MAX`, a 2^30-slot sketch).

Fourth round (ids ending in `4`, same brief as the third, for C01, C06, C14, C15,
C17): all caught; `C14-A4` only after insert-bursts were added to the C14
profile (the fault needs more than 128 entries), `C01-A4` by C07 (it needs an
interleaving). `C14-B4` is, like `C14-B2`, an *unrecorded* lookup; C14 was
silent on both until the ninth round (see there).

Fifth round (ids ending in `5`, same brief as the third, for the twelve
properties that had had three rounds). Caught at once: `C02-A5`, `C03-B5`,
`C04-A5`, `C04-B5`, `C05-B5`, `C07-B5`, `C08-A5`, `C08-B5`, `C09-B5`,
`C10-A5`, `C12-B5`, `C16-A5`. Strengthened after misses: `C02-B5` (STRESS for
C07: one thread runs insert; invalidate_all; get; contains_key in a loop beside
1-4 readers of the same keys), `C03-A5` (STRESS "re-weighing race": writers
re-insert their keys with changing weights while other threads only call
sync(); C10 compares the counters, C03 refills the remaining room exactly,
C04 checks the bound; C03 gained a STRESS engine), `C05-A5`, `C16-B5` (SCHED
now records the exact clock value every insert / get / invalidate_all read, at
the switch point that directly follows the library's clock read; C05 and C06
run in SCHED with exact deadline oracles; the completeness oracle after
quiescence credits successful gets to the idle timer and runs under C16 through
an iteration; four litmus programs were added), `C07-A5` (bursts and lookups of
burst keys in the C07 profile), `C09-A5`, `C11-A5` (SCHED operation "n gets in
a row", litmus programs that fill the read queue while another thread is paused
inside a maintenance run), `C12-A5` (the lock-step model follows the
concurrent cache with ttl/tti as long as every operation is followed by
sync(): purge of expired entries after the writes, before the excess is
evicted). New generator mode found useful on the way: "mid" configurations
(max_capacity 300..2000, first filled with several hundred unit-weight entries,
weights up to the capacity), with the growing-update allowance of C04 accumulated
over operations once more residents than one eviction batch exist.

Sixth round (ids ending in `6`, for C01, C06, C14, C15, C17; several authors
arrived at changes of earlier rounds again, which are kept as duplicates).
Caught at once: eight of ten. Strengthened after misses: `C06-A6` (operation
"sync(); 63..100 gets without sync; step to a key's deadline; get" in the C01,
C05, C06 profiles), `C15-A6` (`{:?}` formatting is one of the extra pure
observations of the C15 pairs, and its purity is monitored like that of
`contains_key` / `iter`). `C17-A6` is reported by C13 (a popular candidate is
rejected), not by C17: `policy()` and the differential histories of C17 agree.

Seventh round (ids ending in `7`; again the twelve properties of the fifth
round). 17 of 24 caught at once (several are variants of earlier changes).
Strengthened after misses: `C04-A7` (C04 progress rule: an operation that runs
the maintenance and grows nothing must bring an over-capacity cache within its
capacity or at least remove something), `C12-A7` (the lock-step model follows windows
of queued gets *and* inserts: reads first, in recording order, then the writes;
estimates are read after the run because only reads feed the estimator; a
directed batch "get(a), insert(popular b), insert(a)"), `C16-A7` (STRESS for
C16: iterating readers beside invalidate_all callers and writers, same oracle as
C07's), `C07-A7` (clock steps to deadlines in the C07 profile), `C08-A7`
(get-bursts in the SCHED programs of C08). `C13-B7` led to "big universe" cases
(24..48 keys, capacities 16..64) and an operation that looks every key up n
times in the C12/C13/C08 profiles; it is reported by C08 (overflow panic in the
debug build), as are `C13-A7` and `C08-B7` by C08 / C17 respectively.
`C03-A7`/`C10-A7` are reported by the committed regression replay of the repaired
defect R1.

Eighth round (ids ending in `8`; C01, C02, C04, C06, C08, C10, C14, C15, C17):
all 18 caught at once, most of them variants of earlier changes (`C08-A8` is
reported by the committed regression replay of R3, `C17-A8` by C06, `C04-A8` by
C10, `C02-A8` by C01/C07).

Ninth round (ids ending in `9`; all 17 properties; one author per property, asked
for one change that needs an interleaving or a particular placement of
maintenance runs and one that needs an unusual input, or for two cooperating
edits and one change that depends on a still-queued or expired-but-unpurged
entry). 31 of 34 caught at once. Strengthened after misses: `C13-A9` (a victim
walk that meets an invalidated key whose removal is still queued: the lock-step
model, which had to be taught to follow the concurrent cache one maintenance run
at a time for this, decides the newcomer under both readings of "LRU prefix of
residents" and demands what they agree on; §9), `C15-B9` and `C17-A9` are
reported by C10 (and C11), not by the property their authors aimed at: the
counters drift, while `contains_key` / `policy()` and the differential histories
agree. `C14-B9` (and with it the older `C14-B2`, `C14-B4`) led to a new clause of
C14, the *lower bound*: from one moment with no read queued to the next, without
an aging step and without a lookup dropped by a full read queue, the estimate of
a key is at least `min(15, before + number of gets of the key)`. Earlier rounds
had read "each at most once" as permission to leave any lookup unrecorded, which
makes "never underestimates" empty; the only lookups the concurrent cache may
drop are those that find its read queue full (observed through the queue
length), and the single-threaded cache drops none. `C06-A9` repeats `C06-A2`
(see below). Burst keys are now looked up in the C03, C04, C10 and C11 profiles
too (found-but-expired arms beyond one purge batch, with the counter, drop and
capacity oracles watching).

Tenth round (ids ending in `10`; all 17 properties; one change per author had to
involve two mechanisms that are each fine alone or a rarely used entry point,
the other three or more threads / a three-step interleaving, or a long history).
25 of 34 caught at once by the property's own check or a neighbour. Strengthened
after misses: `C02-A10` (STRESS of C02: a value a reader has seen replaced must not
come back once the replacing insert has completed), `C02-B10` (new STRESS workload
"one writer per key beside threads that force admissions": the cache holds only
owned keys, fresh keys are made maximally popular and offered, so admissions keep
evicting owned keys whose updates are still queued; the writer's own get may only
show nothing or its last value), `C03-A10` (half of the concurrent cases of the
C03 profile are synced after every operation, where the lock-step model and the
loss oracle follow caches with ttl/tti; also reported by C12's new eviction-amount
monitor), `C12-B10` (the eviction-amount monitor, §9: "only as many as needed" for
caches of any size), `C06-A10` (litmus program "get(a) || advance; get(b);
advance; sync; get(a)" for reads of two keys recorded out of clock order),
`C13-B10` (C14's lower bound mistook a lookup that queues nothing for one dropped
by a full read queue; the queue's capacity is now read through a hook, so only a
lookup that met a full queue counts as dropped). `C04-A10` and `C10-A10` (the
counters read before the maintenance lock, as `C08-A`) make the library's own
`debug_assert_eq!` fire under real threads: C04 / C10 answer "inconclusive" (exit
2, now within seconds: a panic on a STRESS thread ends the worker at once instead
of leaving the others spinning until the watchdog) and C08 reports it.

Eleventh round (ids ending in `11`; all 17 properties; the flavours of the tenth
round swapped between the properties, and for C13–C17 "omissions and asymmetries
between sibling code paths" with a numeric / time boundary or at least four
operations in order). Most authors arrived at variants of earlier changes, which
says the space of small plausible changes is being revisited rather than
extended. Caught at once: 28 of 34. Strengthened after misses: `C07-A11` (SCHED
of C07: a value whose insert read the clock before invalidate_all read it is
targeted even if that insert returns only after the call — the property's own
definition of "inserted before the call" — plus the litmus program "insert; get
|| advance; invalidate_all; insert; get"), `C17-B11` (the differential between
`new(n)` and `builder().max_capacity(n).build()` was restricted to histories in
which the capacity cannot bind, because both caches hash randomly; with binding
capacities four caches of each kind are now compared and a difference is
reported only if each group is unanimous and the groups differ), `C09-A11`
(litmus program "insert || exactly one write queue of inserts": the inserter is
paused inside its own maintenance pass while another thread fills the queue
exactly and finishes; the spin budget of the scheduler then reports the insert
that never runs the maintenance again). `C08-B11` is
reported by C17 (the documented build panic is missing), `C01-A11` by the STRESS
of C07, `C11-A11` (as `C10-B7`) by the STRESS of C10 / C11 with some probability
per run.

Twelfth round (ids ending in `12`; only the properties about concurrent use: C02,
C04, C07, C09, C10, C11, C16; both changes had to need real concurrency, one of
them a specific interleaving with a thread inside a maintenance run). 13 changes
kept (`C09-B12`, housekeeping hoisted out of the write retry loop, made the
repository's own suite hang here and was dropped). The authors parked threads
deterministically through the key type's `Hash` / the value's `Clone` and `Drop`,
i.e. inside DashMap calls and inside maintenance, where SCHED has no switch
point; the checks met those changes through STRESS (with the machine otherwise
idle: `C01-A11` 3 of 3 runs, `C11-A11` 2 of 2) and through their sequential or
litmus shadows. Strengthened after a miss: `C02-B12` (the single-writer STRESS
workload of C02 also runs with a 40 µs time_to_live, so that the expiry sweep
works on keys while their writers rewrite them), `C11-B12` (litmus program
"insert || fill the write queue; invalidate": an invalidation that meets a full
write queue while another thread is paused inside its maintenance run; reported
by C10 and C11 after quiescence).

Not caught (or caught only elsewhere), with the reason:
* `C04-A12` — like `C10-B3`: another thread has to act between two adjacent
  statements of `handle_upsert`, where SCHED has no switch point; the fixed work
  of the STRESS workloads did not hit the window.
* `C16-B12` — needs the Remove op of an invalidation to be applied after the
  re-insert of the key, i.e. an invalidate that overlaps the re-insert; for
  overlapping writes the completeness oracles are undecided about which of the
  two wins, and a `get` that shows nothing is always acceptable to C02.
* `C15-B11` — `C15-B2` again (needs an extra contains_key while the single-threaded
  cache is over capacity: the trigger state of the open known finding U4).
* `C14-A10` — a full read queue discards the *oldest* queued lookup instead of the
  new one. Which lookups a full queue sacrifices is the cache's choice; the
  statement only bounds what is recorded ("each at most once") and promises the
  lower bound for lookups that were not dropped, which C14 checks over stretches
  in which the queue never filled.
* `C12-A10` — the interleaving variant of `C12-B9` / `C13-A10` (both caught): a
  writer descheduled between its map update and the queueing of its operation
  while another thread's admission picks that very key. SCHED has no lock-step
  policy model (it would need the run-by-run model driven by the scheduler trace),
  and passing over an entry whose update is in flight is in the grey zone of C12
  noted under `C12-B3`.
* `C13-A5` — needs five invalidations still queued behind the newcomer's insert.
  How many invalidated keys a victim walk passes over before it gives up is a
  tuning constant (with six the unchanged code itself rejects the newcomer), so
  the lock-step model ends its prediction when a walk meets more than three in
  a row instead of fixing that number.
* `C13-B5` — only real threads reach it (a victim's shard is write-locked during
  admission); outside C13's quantifier, and admission decisions cannot be
  predicted under uncontrolled threads.
* `C11-B5` — needs a key type whose destructor panics: a caller's callback
  panicking is outside C11's quantifier (instrumented types that count and
  never panic).
* `C10-B5` — reported by C08 (overflow check inside maintenance fires first),
  not by C10.
* `C12-A3`, `C10-B3` — need a second thread to act between two adjacent
  statements inside `evict_lru_entries` / `handle_upsert`, where there is no
  switch point; the authors' own tailored stress needed ~2 million updates for
  one hit. Out of reach of SCHED by construction, and too rare for the fixed
  work of STRESS.
* `C12-B3` — needs an automatic maintenance run to fall between a stale queued
  update and the newer queued update of the same key while the cache is over
  capacity (exactly 64 queued writes). The lock-step model does not follow a
  window that an automatic run splits, so no oracle decides the victim there.
* `C09-B3` — starvation of one thread while others keep the queues above the
  flush point for ever; every finite program still terminates, and the
  author's own demonstration did not fail when re-run here. Bounded liveness
  cannot see it (§7).
* `C06-A2`, `C06-A9` — the change stamps a hit with a clock reading taken a few
  statements later inside the same `get`. At the granularity of API calls "the
  clock reading of the get" is any reading between the call's start and end,
  so no history oracle can distinguish the two; not a violation one can state
  against the property.
* `C12-A2` — missed at first (the concurrent clause of C12 was only checked in
  the sequential domain). Now caught: SCHED runs get/insert-only programs with
  no maintenance during the threaded phase, derives the order in which reads
  were recorded and writes queued from the scheduler trace, and compares the
  resulting LRU order with the order in which popular newcomers then evict the
  residents.
* `C13-B2` — the patch no longer applies after the R3 repair rewrote the lines
  it touches (not run).
* `C14-B2`, `C14-B4` — silent until the ninth round, now caught by the lower-bound
  clause of C14 (a lookup that is not recorded although nothing was dropped).
* `C15-B2` — only manifests when an extra `contains_key` runs while the unsync
  cache is over capacity, which is exactly the trigger state of the open known
  finding U4 and is excluded by construction.
* `C04-B2`, `C10-B2` — reported by C08 (the library's own `debug_assert_eq!`
  in `sync` fires first), not by C04/C10.
"""
p="/verif/DESIGN.md"; s=open(p).read()
if "@@SEEDED@@" in s:
    s=s.replace("@@SEEDED@@","<!-- seeded-table-begin -->\n"+table+"<!-- seeded-table-end -->")
else:
    a=s.index("<!-- seeded-table-begin -->"); b=s.index("<!-- seeded-table-end -->")
    s=s[:a]+"<!-- seeded-table-begin -->\n"+table+s[b:]
open(p,"w").write(s)
print(len(rows),"rows")
