#!/bin/bash
# usage: tools_mut.sh "<sed expr>" <file relative to /repo> <check ids...>
# Applies a one-line mutation to /repo's working tree, runs the quick checks, restores.
EXPR="$1"; FILE="$2"; shift 2
cd /repo || exit 2
sed -i "$EXPR" "$FILE"
if git diff --quiet; then echo "MUTATION DID NOT APPLY"; exit 3; fi
git diff | grep '^[-+]' | grep -v '^[-+][-+]' | head -6
for id in "$@"; do
  out=$(/verif/check "$id" quick 2>&1)
  echo "$out" | grep -E "^(VIOLATION|ERROR|C[0-9]+ quick)" | head -4
done
git checkout -q -- .
