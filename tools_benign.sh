#!/bin/bash
# (needs a scratch worktree: git -C /repo worktree add --detach /tmp/repo_clean HEAD; remove it and /tmp/vcopy afterwards)
# usage: benign.sh <checks...>   runs each benign variant in /tmp/repo_clean against the checks (from /tmp/vcopy)
rsync -a --delete --exclude target --exclude .git --exclude seeded --exclude replays --exclude evidence /verif/ /tmp/vcopy/
mkdir -p /tmp/vcopy/evidence
R=/tmp/repo_clean
variant() { # name file sed
  cd $R && git checkout -q -- . && sed -i "$3" "$2" && if git diff --quiet; then echo "VARIANT $1 DID NOT APPLY"; return; fi
  for id in $CHECKS; do
    out=$(cd /tmp/vcopy && VERIF_REPO=$R ./check $id quick 2>&1 | tail -1)
    echo "$1 | $out"
  done
  cd $R && git checkout -q -- .
}
CHECKS="$@"
variant flush32 src/common/concurrent/constants.rs 's/FLUSH_POINT: usize = 64/FLUSH_POINT: usize = 32/'
variant interval300 src/common/concurrent/constants.rs 's/INTERVAL_MILLIS: u64 = 500/INTERVAL_MILLIS: u64 = 300/'
variant repeats6 src/common/concurrent/constants.rs 's/MAX_SYNC_REPEATS: usize = 4/MAX_SYNC_REPEATS: usize = 6/'
variant batch200 src/sync/base_cache.rs 's/EVICTION_BATCH_SIZE: usize = 500/EVICTION_BATCH_SIZE: usize = 200/'
variant ubatch50 src/unsync/cache.rs 's/^const EVICTION_BATCH_SIZE: usize = 100/const EVICTION_BATCH_SIZE: usize = 50/'
variant retries8 src/sync/base_cache.rs 's/MAX_CONSECUTIVE_RETRIES: usize = 5/MAX_CONSECUTIVE_RETRIES: usize = 8/'
variant retries3 src/sync/base_cache.rs 's/MAX_CONSECUTIVE_RETRIES: usize = 5/MAX_CONSECUTIVE_RETRIES: usize = 3/'
echo DONE
