#!/usr/bin/env python3
"""Re-runs detection for every kept seeded change with the current harness.
For each one: the checks that caught it before (or its own property) are run again."""
import json,glob,os,subprocess,sys,re
rows=[]
for d in sorted(glob.glob("/verif/seeded/*/meta.json")):
    m=json.load(open(d)); name=os.path.basename(os.path.dirname(d))
    pid=m["property"]; var=m["variant"]; suffix=name[len(pid)+1+len(var):]
    det=[k.split(":")[0] for k in m.get("detected_by",[])]
    checks=det[:1] if det else [pid]
    cmd=f"python3 /verif/tools_seed.py {pid} {var} --suffix '{suffix}' --checks {','.join(checks)}"
    p=subprocess.run(cmd,shell=True,stdout=subprocess.PIPE,stderr=subprocess.STDOUT,text=True)
    line=[l for l in p.stdout.splitlines() if l.startswith("check ")]
    ok=any("exit 1" in l for l in line)
    print(name, checks, "CAUGHT" if ok else "MISSED", flush=True)
