#!/usr/bin/env python3
"""Own sensitivity mutants (DESIGN.md §4 'S' lists): apply, run the quick checks, restore.
usage: tools_mutants.py [name-substring]"""
import subprocess, sys, os, json, time
R="/repo/src/"
M=[
 # name, file, old, new, checks
 ("C01-contains-ignores-valid_after","sync/base_cache.rs","""                let (ttl, tti, va) = (&i.time_to_live(), &i.time_to_idle(), &i.valid_after());
                let now = i.current_time_from_expiration_clock();
                let entry = &*entry;
""","""                let (ttl, tti, va) = (&i.time_to_live(), &i.time_to_idle(), &None);
                let now = i.current_time_from_expiration_clock();
                let entry = &*entry;
""",["C01","C07"]),
 ("C01-unsync-invalidate_if-keeps-map","unsync/cache.rs","""            if let Some(mut entry) = cache.remove(&k) {
                let weight = entry.policy_weight();
                deques.unlink_ao(&mut entry);""","""            if let Some(entry) = cache.get_mut(&k) {
                let weight = entry.policy_weight();
                deques.unlink_ao(entry);""",["C01","C07","C08"]),
 ("C04-has_enough_capacity-ignores-candidate","unsync/cache.rs",""".map(|limit| ws + candidate_weight as u64 <= limit)""",""".map(|limit| ws <= limit)""",["C04"]),
 ("C04-sync-oversized-check-removed","sync/base_cache.rs","""            if new_weight as u64 > max {""","""            if false && new_weight as u64 > max {""",["C04","C13"]),
 ("C04-unsync-evict-stops-early","unsync/cache.rs","""                if evicted_policy_weight >= weights_to_evict {
                    break;
                }""","""                if evicted_policy_weight + 1 >= weights_to_evict {
                    break;
                }""",["C04","C12"]),
 ("C05-unsync-wo-lt","unsync/cache.rs","""                panic!("ttl overflow")
            }
            return checked_add.unwrap() <= now;
        }
        false
    }

    fn record_hit""","""                panic!("ttl overflow")
            }
            return checked_add.unwrap() < now;
        }
        false
    }

    fn record_hit""",["C05"]),
 ("C05-sync-wo-lt","sync/base_cache.rs","""                panic!("ttl overflow");
            }
            return checked_add.unwrap() <= now;""","""                panic!("ttl overflow");
            }
            return checked_add.unwrap() < now;""",["C05"]),
 ("C05-unsync-hit-refreshes-last_modified","unsync/cache.rs","""        if let Some(ts) = ts {
            entry.set_last_accessed(ts);
        }
        deques.move_to_back_ao(entry)""","""        if let Some(ts) = ts {
            entry.set_last_accessed(ts);
            if entry.write_order_q_node().is_some() {
                entry.set_last_modified(ts);
            }
        }
        deques.move_to_back_ao(entry)""",["C05"]),
 ("C06-sync-contains-records-hit","sync/base_cache.rs","""                !is_expired_entry_wo(ttl, va, entry, now)
                    && !is_expired_entry_ao(tti, va, entry, now)
            }
        }
    }

    pub(crate) fn get_with_hash""","""                let alive = !is_expired_entry_wo(ttl, va, entry, now)
                    && !is_expired_entry_ao(tti, va, entry, now);
                if alive {
                    entry.set_last_accessed(now);
                }
                alive
            }
        }
    }

    pub(crate) fn get_with_hash""",["C06","C15"]),
 ("C06-sync-read-stamped-at-apply","sync/base_cache.rs","""                    if entry
                        .last_accessed()
                        .map(|la| la < timestamp)
                        .unwrap_or(true)
                    {
                        entry.set_last_accessed(timestamp);
                    }""","""                    let timestamp = { let _ = timestamp; self.current_time_from_expiration_clock() };
                    if entry
                        .last_accessed()
                        .map(|la| la < timestamp)
                        .unwrap_or(true)
                    {
                        entry.set_last_accessed(timestamp);
                    }""",["C06"]),
 ("C06-unsync-ao-lt","unsync/cache.rs","""                panic!("ttl overflow")
            }
            return checked_add.unwrap() <= now;
        }
        false
    }

    #[inline]
    fn is_expired_entry_wo""","""                panic!("ttl overflow")
            }
            return checked_add.unwrap() < now;
        }
        false
    }

    #[inline]
    fn is_expired_entry_wo""",["C06"]),
 ("C07-valid_after-le","sync/base_cache.rs","""    if let Some(ts) = entry.last_modified() {
        if let Some(va) = valid_after {
            if ts < *va {""","""    if let Some(ts) = entry.last_modified() {
        if let Some(va) = valid_after {
            if ts <= *va {""",["C07","C03"]),
 ("C09-try_sync-forgets-release","common/concurrent/housekeeper.rs","""                cache.sync(MAX_SYNC_REPEATS);

                self.is_sync_running.store(false, Ordering::Release);""","""                cache.sync(MAX_SYNC_REPEATS);

                if now == cache.now() {
                    self.is_sync_running.store(false, Ordering::Release);
                }""",["C09"]),
 ("C10-sync-handle_remove-weight-1","sync/base_cache.rs","""        if entry.is_admitted() {
            entry.set_admitted(false);
            counters.saturating_sub(1, entry.policy_weight());
            // The following two unlink_* functions will unset the deq nodes.
            deqs.unlink_ao(&entry);""","""        if entry.is_admitted() {
            entry.set_admitted(false);
            counters.saturating_sub(1, entry.policy_weight().min(1));
            // The following two unlink_* functions will unset the deq nodes.
            deqs.unlink_ao(&entry);""",["C10"]),
 ("C10-unsync-update-forgets-old-weight","unsync/cache.rs","""        self.saturating_sub_from_total_weight(old_policy_weight as u64);
        self.saturating_add_to_total_weight(policy_weight as u64);""","""        if old_policy_weight > policy_weight {
            self.saturating_sub_from_total_weight(old_policy_weight as u64);
        }
        self.saturating_add_to_total_weight(policy_weight as u64);""",["C10","C03"]),
 ("C11-deque-drop-stops-early","common/deque.rs","""        while let Some(node) = self.pop_front() {
            let guard = DropGuard(self);
            drop(node);
            std::mem::forget(guard);
        }""","""        if let Some(node) = self.pop_front() {
            let guard = DropGuard(self);
            drop(node);
            std::mem::forget(guard);
        }""",["C11","C08"]),
 ("C12-sync-hit-no-move","sync/base_cache.rs","""                    if entry.is_admitted() {
                        deqs.move_to_back_ao(&entry);
                    }
                }
                Ok(Miss(hash))""","""                    if entry.is_admitted() && false {
                        deqs.move_to_back_ao(&entry);
                    }
                }
                Ok(Miss(hash))""",["C12"]),
 ("C12-unsync-update-no-move","unsync/cache.rs","""        let deqs = &mut self.deques;
        deqs.move_to_back_ao(entry);
        if self.time_to_live.is_some() {
            deqs.move_to_back_wo(entry);""","""        let deqs = &mut self.deques;
        if self.time_to_live.is_some() {
            deqs.move_to_back_ao(entry);
            deqs.move_to_back_wo(entry);""",["C12"]),
 ("C13-unsync-ge","unsync/cache.rs","""        if victims.weight >= candidate.weight && candidate.freq > victims.freq {""","""        if victims.weight >= candidate.weight && candidate.freq >= victims.freq {""",["C13"]),
 ("C13-sync-candidate-uses-victim-hash","sync/base_cache.rs","""                    victims.add_frequency(freq, vic_elem.hash());""","""                    victims.add_frequency(freq, vic_elem.hash() ^ 1);""",["C13"]),
 ("C13-sync-weight-loop-le","sync/base_cache.rs","""        while victims.policy_weight < candidate.policy_weight {""","""        while victims.policy_weight <= candidate.policy_weight {""",["C13","C12"]),
 ("C14-saturation-off","common/frequency_sketch.rs","""        if self.table[table_index] & mask != mask {""","""        if self.table[table_index] & mask != (0xE_u64 << offset) {""",["C14","C08"]),
 ("C15-unsync-contains-increments","unsync/cache.rs","""        let timestamp = self.evict_expired_if_needed();
        self.evict_lru_entries();

        match (self.cache.get(key), timestamp) {""","""        let timestamp = self.evict_expired_if_needed();
        self.evict_lru_entries();
        self.frequency_sketch.increment(self.hash(key));

        match (self.cache.get(key), timestamp) {""",["C15","C14"]),
 ("C16-sync-iter-skips-dirty","sync/iter.rs","""            if !self.cache.is_expired_entry(map_ref.value()) {""","""            if !self.cache.is_expired_entry(map_ref.value()) && !map_ref.value().is_dirty() {""",["C16","C03"]),
 ("C02-nonatomic-update","sync/base_cache.rs","""        let ts = self.inner.current_time_from_expiration_clock();
        #[cfg(mini_moka_verif)]
        crate::verif::switch_point(crate::verif::site::INSERT_AFTER_CLOCK);
        let weight = self.inner.weigh(&key, &value);""","""        let ts = self.inner.current_time_from_expiration_clock();
        let stale = self.inner.cache.get(&key).map(|e| TrioArc::clone(&*e));
        #[cfg(mini_moka_verif)]
        crate::verif::switch_point(crate::verif::site::INSERT_AFTER_CLOCK);
        if let Some(s) = stale {
            if self.inner.cache.get(&key).is_none() {
                self.inner.cache.insert(Arc::clone(&key), s);
            }
        }
        let weight = self.inner.weigh(&key, &value);""",["C02","C07"]),
]
def sh(c,cwd=None,t=1800):
    p=subprocess.run(c,shell=True,cwd=cwd,stdout=subprocess.PIPE,stderr=subprocess.STDOUT,text=True,timeout=t); return p.returncode,p.stdout
sel=sys.argv[1] if len(sys.argv)>1 else ""
res={}
for name,f,old,new,checks in M:
    if sel not in name: continue
    path=R+f; s=open(path).read()
    if s.count(old)!=1:
        print(f"{name}: ANCHOR NOT FOUND ({s.count(old)})"); continue
    open(path,"w").write(s.replace(old,new))
    try:
        try:
            rc,o=sh("timeout 120 cargo test --offline --lib 2>&1 | grep -E '^test result|error(\\[|:)' | head -3",cwd="/repo",t=200)
        except Exception:
            o="timeout"
        suite="35 passed; 0 failed" in o
        line=f"{name}: suite_ok={suite}"
        for c in checks:
            rc,o=sh(f"/verif/check {c} quick",cwd="/verif")
            first=[l for l in o.splitlines() if l.startswith("[C") or l.startswith("ERROR")][:1]
            line+=f" | {c}:{'CAUGHT' if rc==1 else ('err' if rc==2 else 'missed')}"
            res[name+":"+c]=(rc,first)
        print(line,flush=True)
    finally:
        sh("git checkout -q -- .",cwd="/repo"); sh("rm -f /verif/replays/*.json")
